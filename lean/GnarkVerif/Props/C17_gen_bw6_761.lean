/- INSTANTIATED by bin/mkc11gen.py (one proof template for the 7 packages). DO NOT EDIT: edit the script and re-run it. -/
import GnarkVerif.Proofs.VerifierGenPed
import GnarkVerif.Gen.Verifier.Pedersen_bw6_761
import Mathlib.Algebra.Group.Basic
import Mathlib.Algebra.Ring.Defs
import Mathlib.Tactic.Ring
import Mathlib.Tactic.SplitIfs
/-
C17 (Pedersen), tie T for ecc/bw6-761/fr/pedersen/pedersen.go: (*VerifyingKey).Verify and BatchVerifyMultiVk (1..3 keys; one proof of
knowledge per key, or one folded proof) as REGENERATED from the Go text (Gen/Verifier/Pedersen_bw6_761.lean).
Unmarked theorems: the generated def, read in the exponent model with the driver's dictionary `fp q` (Proofs/VerifierGenPed.lean; every
point passes `IsInSubGroup`, which is vacuous in that model), accepts exactly when `Model/ArgPairing.lean` `pedVerify` / `pedBatchVerify`
does — so `C17a_ped_*` (for `fp q`: `lawful_fp`) hold of the translated text. `_abstract`: the operands over ANY group / pairing check.
-/
set_option linter.unusedSectionVars false
set_option linter.unusedVariables false
set_option linter.unusedSimpArgs false
set_option linter.unusedTactic false
set_option linter.unreachableTactic false

open GV GV.Alg GV.KZG GV.Gen.Verifier GV.VerifierGen GV.ArgPairing
namespace GV.C17gen
variable (q : ℕ) [NeZero q]

/-- `(*VerifyingKey).Verify` as the Go text computes it, read in the exponent model with every point in the subgroup,
IS `Model.ArgPairing.pedVerify` run with the driver's dictionary `fp q` (every input) -/
theorem C17gen_bw6_761_ped_verify (vkG vkS : Ex2 q) (C pok : Ex q) :
    pedersen_bw6_761.VerifyingKey_Verify (G := Ex q) (G2 := Ex2 q) (S := Ex q) (L := Unit) Ex.toInt (fun _ => true) (pcP q) vkG vkS C pok
      = resOfPed (pedVerify (fp q) ⟨vkG.v, vkS.v⟩ C.v pok.v) := by
  have h : pcP q [C, pok] [vkS, vkG] = pedVerify (fp q) ⟨vkG.v, vkS.v⟩ C.v pok.v := rfl
  simp only [pedersen_bw6_761.VerifyingKey_Verify, h, resOfPed]
  cases pedVerify (fp q) ⟨vkG.v, vkS.v⟩ C.v pok.v <;> rfl

/-- abstract level: for ANY group, subgroup predicate and pairing check the code returns nil iff both points pass the
subgroup check and the pairing check holds of (commitment, proof) against (vk.GSigmaNeg, vk.G) -/
theorem C17gen_bw6_761_ped_verify_abstract {G G2 S L : Type} [AddCommGroup G] [CommRing S] [BEq G2] (toInt : S → Int)
    (isg : G → Bool) (pc : List G → List G2 → Bool) (vkG vkS : G2) (C pok : G) :
    pedersen_bw6_761.VerifyingKey_Verify (L := L) toInt isg pc vkG vkS C pok = Res.ok ↔
      (isg C = true ∧ isg pok = true ∧ pc [C, pok] [vkS, vkG] = true) := by
  simp only [pedersen_bw6_761.VerifyingKey_Verify]
  cases isg C <;> cases isg pok <;> cases pc [C, pok] [vkS, vkG] <;> simp

/-- a point outside the subgroup is rejected whatever the pairing check says -/
theorem C17gen_bw6_761_ped_verify_subgroup {G G2 S L : Type} [AddCommGroup G] [CommRing S] [BEq G2] (toInt : S → Int)
    (isg : G → Bool) (pc : List G → List G2 → Bool) (vkG vkS : G2) (C pok : G) (h : isg C = false ∨ isg pok = false) :
    pedersen_bw6_761.VerifyingKey_Verify (L := L) toInt isg pc vkG vkS C pok = Res.err "subgroup check failed" := by
  simp only [pedersen_bw6_761.VerifyingKey_Verify]
  rcases h with h | h <;> simp [h]

/-- `BatchVerifyMultiVk` on 1 keys / commitments and 1 proof(s) of knowledge, every point in the subgroup:
the Go text accepts iff `Model.ArgPairing.pedBatchVerify` (dictionary `fp q`) accepts -/
theorem C17gen_bw6_761_ped_batch_k1 (g0 s0 : Ex2 q) (c0 p0 co : Ex q) :
    pedersen_bw6_761.BatchVerifyMultiVk_k1 (G := Ex q) (G2 := Ex2 q) (S := Ex q) (L := Unit) Ex.toInt (fun _ => true) (pcP q) g0 s0 c0 p0 co = Res.ok
      ↔ pedBatchVerify (fp q) [⟨g0.v, s0.v⟩] [c0.v] [p0.v] co.v = some true := by
  have hb : ∀ a b : Ex2 q, (a != b) = !(fp q).beq a.v b.v := fun _ _ => rfl
  have h0 : (fp q).beq g0.v g0.v = true := by simp [fp_beq_decide]
  simp only [pedersen_bw6_761.BatchVerifyMultiVk_k1, hb, Bool.not_true, Bool.false_eq_true, if_false]
  simp only [pedBatchVerify, List.length_cons, List.length_nil, ne_eq, not_true_eq_false, false_and, and_false, if_false,
    List.any_cons, List.any_nil, h0, Bool.not_true, Bool.false_or, Bool.or_false, reduceCtorEq, OfNat.ofNat_ne_one,
    Nat.reduceAdd, Nat.reduceEqDiff]
  simp only [Bool.not_true, Bool.false_eq_true, if_false, Option.some.injEq, Bool.or_self, Bool.or_false]
  apply res_ok_iff_of_eq
  apply fp_pairingCheck_congr
  simp only [List.map, ArgPairing.dot, scaleByPowers, ArgPairing.fold, powersFrom, List.length, List.cons_append,
    List.nil_append, smul_v, add_v, mul_v, one_v, zero_v]
  simp only [cast_fp_add, cast_fp_mul, cast_fp_zero, cast_fp_one, cast_addm, cast_mulm, cast_one_mod, Nat.cast_zero]
  ring

/-- abstract level (1 keys, 1 proof(s)): nil iff every subgroup check passes, every vk[i].G equals vk[0].G and the pairing check
holds of (C₀, [r]C₁, [r²]C₂…, Σ[rⁱ]pokᵢ) against (GSigmaNeg₀, …, G₀), r = combinationCoeff -/
theorem C17gen_bw6_761_ped_batch_k1_abstract {G G2 S L : Type} [AddCommGroup G] [CommRing S] [BEq G2] (toInt : S → Int)
    (isg : G → Bool) (pc : List G → List G2 → Bool) (g0 s0 : G2) (c0 p0 : G) (co : S) :
    pedersen_bw6_761.BatchVerifyMultiVk_k1 (L := L) toInt isg pc g0 s0 c0 p0 co = Res.ok ↔
      (isg c0 = true ∧ isg p0 = true ∧
        pc [c0, toInt ((1 : S)) • p0 + (0 : G)] [s0, g0] = true) := by
  simp only [pedersen_bw6_761.BatchVerifyMultiVk_k1]
  split_ifs <;> simp_all

/-- `BatchVerifyMultiVk` on 2 keys / commitments and 2 proof(s) of knowledge, every point in the subgroup:
the Go text accepts iff `Model.ArgPairing.pedBatchVerify` (dictionary `fp q`) accepts -/
theorem C17gen_bw6_761_ped_batch_k2 (g0 s0 g1 s1 : Ex2 q) (c0 c1 p0 p1 co : Ex q) :
    pedersen_bw6_761.BatchVerifyMultiVk_k2 (G := Ex q) (G2 := Ex2 q) (S := Ex q) (L := Unit) Ex.toInt (fun _ => true) (pcP q) g0 s0 g1 s1 c0 c1 p0 p1 co = Res.ok
      ↔ pedBatchVerify (fp q) [⟨g0.v, s0.v⟩, ⟨g1.v, s1.v⟩] [c0.v, c1.v] [p0.v, p1.v] co.v = some true := by
  have hb : ∀ a b : Ex2 q, (a != b) = !(fp q).beq a.v b.v := fun _ _ => rfl
  have h0 : (fp q).beq g0.v g0.v = true := by simp [fp_beq_decide]
  simp only [pedersen_bw6_761.BatchVerifyMultiVk_k2, hb, Bool.not_true, Bool.false_eq_true, if_false]
  simp only [pedBatchVerify, List.length_cons, List.length_nil, ne_eq, not_true_eq_false, false_and, and_false, if_false,
    List.any_cons, List.any_nil, h0, Bool.not_true, Bool.false_or, Bool.or_false, reduceCtorEq, OfNat.ofNat_ne_one,
    Nat.reduceAdd, Nat.reduceEqDiff]
  cases hg1 : (fp q).beq g1.v g0.v
  all_goals first | (simp; done) | skip
  simp only [Bool.not_true, Bool.false_eq_true, if_false, Option.some.injEq, Bool.or_self, Bool.or_false]
  apply res_ok_iff_of_eq
  apply fp_pairingCheck_congr
  simp only [List.map, ArgPairing.dot, scaleByPowers, ArgPairing.fold, powersFrom, List.length, List.cons_append,
    List.nil_append, smul_v, add_v, mul_v, one_v, zero_v]
  simp only [cast_fp_add, cast_fp_mul, cast_fp_zero, cast_fp_one, cast_addm, cast_mulm, cast_one_mod, Nat.cast_zero]
  ring

/-- abstract level (2 keys, 2 proof(s)): nil iff every subgroup check passes, every vk[i].G equals vk[0].G and the pairing check
holds of (C₀, [r]C₁, [r²]C₂…, Σ[rⁱ]pokᵢ) against (GSigmaNeg₀, …, G₀), r = combinationCoeff -/
theorem C17gen_bw6_761_ped_batch_k2_abstract {G G2 S L : Type} [AddCommGroup G] [CommRing S] [BEq G2] (toInt : S → Int)
    (isg : G → Bool) (pc : List G → List G2 → Bool) (g0 s0 g1 s1 : G2) (c0 c1 p0 p1 : G) (co : S) :
    pedersen_bw6_761.BatchVerifyMultiVk_k2 (L := L) toInt isg pc g0 s0 g1 s1 c0 c1 p0 p1 co = Res.ok ↔
      (isg c0 = true ∧ isg c1 = true ∧ (g1 != g0) = false ∧ isg p0 = true ∧ isg p1 = true ∧
        pc [c0, toInt (co) • c1, toInt ((1 : S)) • p0 + (toInt ((1 : S) * co) • p1 + (0 : G))] [s0, s1, g0] = true) := by
  simp only [pedersen_bw6_761.BatchVerifyMultiVk_k2]
  split_ifs <;> simp_all

/-- `BatchVerifyMultiVk` on 2 keys / commitments and 1 proof(s) of knowledge (the folded proof), every point in the subgroup:
the Go text accepts iff `Model.ArgPairing.pedBatchVerify` (dictionary `fp q`) accepts -/
theorem C17gen_bw6_761_ped_batch_k2_folded (g0 s0 g1 s1 : Ex2 q) (c0 c1 p0 co : Ex q) :
    pedersen_bw6_761.BatchVerifyMultiVk_n2_2_1 (G := Ex q) (G2 := Ex2 q) (S := Ex q) (L := Unit) Ex.toInt (fun _ => true) (pcP q) g0 s0 g1 s1 c0 c1 p0 co = Res.ok
      ↔ pedBatchVerify (fp q) [⟨g0.v, s0.v⟩, ⟨g1.v, s1.v⟩] [c0.v, c1.v] [p0.v] co.v = some true := by
  have hb : ∀ a b : Ex2 q, (a != b) = !(fp q).beq a.v b.v := fun _ _ => rfl
  have h0 : (fp q).beq g0.v g0.v = true := by simp [fp_beq_decide]
  simp only [pedersen_bw6_761.BatchVerifyMultiVk_n2_2_1, hb, Bool.not_true, Bool.false_eq_true, if_false]
  simp only [pedBatchVerify, List.length_cons, List.length_nil, ne_eq, not_true_eq_false, false_and, and_false, if_false,
    List.any_cons, List.any_nil, h0, Bool.not_true, Bool.false_or, Bool.or_false, reduceCtorEq, OfNat.ofNat_ne_one,
    Nat.reduceAdd, Nat.reduceEqDiff]
  cases hg1 : (fp q).beq g1.v g0.v
  all_goals first | (simp; done) | skip
  simp only [Bool.not_true, Bool.false_eq_true, if_false, Option.some.injEq, Bool.or_self, Bool.or_false]
  apply res_ok_iff_of_eq
  apply fp_pairingCheck_congr
  simp only [List.map, ArgPairing.dot, scaleByPowers, ArgPairing.fold, powersFrom, List.length, List.cons_append,
    List.nil_append, smul_v, add_v, mul_v, one_v, zero_v]
  simp only [cast_fp_add, cast_fp_mul, cast_fp_zero, cast_fp_one, cast_addm, cast_mulm, cast_one_mod, Nat.cast_zero]
  ring

/-- abstract level (2 keys, 1 proof(s)): nil iff every subgroup check passes, every vk[i].G equals vk[0].G and the pairing check
holds of (C₀, [r]C₁, [r²]C₂…, Σ[rⁱ]pokᵢ) against (GSigmaNeg₀, …, G₀), r = combinationCoeff -/
theorem C17gen_bw6_761_ped_batch_k2_folded_abstract {G G2 S L : Type} [AddCommGroup G] [CommRing S] [BEq G2] (toInt : S → Int)
    (isg : G → Bool) (pc : List G → List G2 → Bool) (g0 s0 g1 s1 : G2) (c0 c1 p0 : G) (co : S) :
    pedersen_bw6_761.BatchVerifyMultiVk_n2_2_1 (L := L) toInt isg pc g0 s0 g1 s1 c0 c1 p0 co = Res.ok ↔
      (isg c0 = true ∧ isg c1 = true ∧ (g1 != g0) = false ∧ isg p0 = true ∧
        pc [c0, toInt (co) • c1, toInt ((1 : S)) • p0 + (0 : G)] [s0, s1, g0] = true) := by
  simp only [pedersen_bw6_761.BatchVerifyMultiVk_n2_2_1]
  split_ifs <;> simp_all

/-- `BatchVerifyMultiVk` on 3 keys / commitments and 3 proof(s) of knowledge, every point in the subgroup:
the Go text accepts iff `Model.ArgPairing.pedBatchVerify` (dictionary `fp q`) accepts -/
theorem C17gen_bw6_761_ped_batch_k3 (g0 s0 g1 s1 g2 s2 : Ex2 q) (c0 c1 c2 p0 p1 p2 co : Ex q) :
    pedersen_bw6_761.BatchVerifyMultiVk_k3 (G := Ex q) (G2 := Ex2 q) (S := Ex q) (L := Unit) Ex.toInt (fun _ => true) (pcP q) g0 s0 g1 s1 g2 s2 c0 c1 c2 p0 p1 p2 co = Res.ok
      ↔ pedBatchVerify (fp q) [⟨g0.v, s0.v⟩, ⟨g1.v, s1.v⟩, ⟨g2.v, s2.v⟩] [c0.v, c1.v, c2.v] [p0.v, p1.v, p2.v] co.v = some true := by
  have hb : ∀ a b : Ex2 q, (a != b) = !(fp q).beq a.v b.v := fun _ _ => rfl
  have h0 : (fp q).beq g0.v g0.v = true := by simp [fp_beq_decide]
  simp only [pedersen_bw6_761.BatchVerifyMultiVk_k3, hb, Bool.not_true, Bool.false_eq_true, if_false]
  simp only [pedBatchVerify, List.length_cons, List.length_nil, ne_eq, not_true_eq_false, false_and, and_false, if_false,
    List.any_cons, List.any_nil, h0, Bool.not_true, Bool.false_or, Bool.or_false, reduceCtorEq, OfNat.ofNat_ne_one,
    Nat.reduceAdd, Nat.reduceEqDiff]
  cases hg1 : (fp q).beq g1.v g0.v <;> cases hg2 : (fp q).beq g2.v g0.v
  all_goals first | (simp; done) | skip
  simp only [Bool.not_true, Bool.false_eq_true, if_false, Option.some.injEq, Bool.or_self, Bool.or_false]
  apply res_ok_iff_of_eq
  apply fp_pairingCheck_congr
  simp only [List.map, ArgPairing.dot, scaleByPowers, ArgPairing.fold, powersFrom, List.length, List.cons_append,
    List.nil_append, smul_v, add_v, mul_v, one_v, zero_v]
  simp only [cast_fp_add, cast_fp_mul, cast_fp_zero, cast_fp_one, cast_addm, cast_mulm, cast_one_mod, Nat.cast_zero]
  ring

/-- abstract level (3 keys, 3 proof(s)): nil iff every subgroup check passes, every vk[i].G equals vk[0].G and the pairing check
holds of (C₀, [r]C₁, [r²]C₂…, Σ[rⁱ]pokᵢ) against (GSigmaNeg₀, …, G₀), r = combinationCoeff -/
theorem C17gen_bw6_761_ped_batch_k3_abstract {G G2 S L : Type} [AddCommGroup G] [CommRing S] [BEq G2] (toInt : S → Int)
    (isg : G → Bool) (pc : List G → List G2 → Bool) (g0 s0 g1 s1 g2 s2 : G2) (c0 c1 c2 p0 p1 p2 : G) (co : S) :
    pedersen_bw6_761.BatchVerifyMultiVk_k3 (L := L) toInt isg pc g0 s0 g1 s1 g2 s2 c0 c1 c2 p0 p1 p2 co = Res.ok ↔
      (isg c0 = true ∧ isg c1 = true ∧ (g1 != g0) = false ∧ isg c2 = true ∧ (g2 != g0) = false ∧ isg p0 = true ∧ isg p1 = true ∧ isg p2 = true ∧
        pc [c0, toInt (co) • c1, toInt (co * co) • c2, toInt ((1 : S)) • p0 + (toInt ((1 : S) * co) • p1 + (toInt ((1 : S) * co * co) • p2 + (0 : G)))] [s0, s1, s2, g0] = true) := by
  simp only [pedersen_bw6_761.BatchVerifyMultiVk_k3]
  split_ifs <;> simp_all

/-- `BatchVerifyMultiVk` on 3 keys / commitments and 1 proof(s) of knowledge (the folded proof), every point in the subgroup:
the Go text accepts iff `Model.ArgPairing.pedBatchVerify` (dictionary `fp q`) accepts -/
theorem C17gen_bw6_761_ped_batch_k3_folded (g0 s0 g1 s1 g2 s2 : Ex2 q) (c0 c1 c2 p0 co : Ex q) :
    pedersen_bw6_761.BatchVerifyMultiVk_n3_3_1 (G := Ex q) (G2 := Ex2 q) (S := Ex q) (L := Unit) Ex.toInt (fun _ => true) (pcP q) g0 s0 g1 s1 g2 s2 c0 c1 c2 p0 co = Res.ok
      ↔ pedBatchVerify (fp q) [⟨g0.v, s0.v⟩, ⟨g1.v, s1.v⟩, ⟨g2.v, s2.v⟩] [c0.v, c1.v, c2.v] [p0.v] co.v = some true := by
  have hb : ∀ a b : Ex2 q, (a != b) = !(fp q).beq a.v b.v := fun _ _ => rfl
  have h0 : (fp q).beq g0.v g0.v = true := by simp [fp_beq_decide]
  simp only [pedersen_bw6_761.BatchVerifyMultiVk_n3_3_1, hb, Bool.not_true, Bool.false_eq_true, if_false]
  simp only [pedBatchVerify, List.length_cons, List.length_nil, ne_eq, not_true_eq_false, false_and, and_false, if_false,
    List.any_cons, List.any_nil, h0, Bool.not_true, Bool.false_or, Bool.or_false, reduceCtorEq, OfNat.ofNat_ne_one,
    Nat.reduceAdd, Nat.reduceEqDiff]
  cases hg1 : (fp q).beq g1.v g0.v <;> cases hg2 : (fp q).beq g2.v g0.v
  all_goals first | (simp; done) | skip
  simp only [Bool.not_true, Bool.false_eq_true, if_false, Option.some.injEq, Bool.or_self, Bool.or_false]
  apply res_ok_iff_of_eq
  apply fp_pairingCheck_congr
  simp only [List.map, ArgPairing.dot, scaleByPowers, ArgPairing.fold, powersFrom, List.length, List.cons_append,
    List.nil_append, smul_v, add_v, mul_v, one_v, zero_v]
  simp only [cast_fp_add, cast_fp_mul, cast_fp_zero, cast_fp_one, cast_addm, cast_mulm, cast_one_mod, Nat.cast_zero]
  ring

/-- abstract level (3 keys, 1 proof(s)): nil iff every subgroup check passes, every vk[i].G equals vk[0].G and the pairing check
holds of (C₀, [r]C₁, [r²]C₂…, Σ[rⁱ]pokᵢ) against (GSigmaNeg₀, …, G₀), r = combinationCoeff -/
theorem C17gen_bw6_761_ped_batch_k3_folded_abstract {G G2 S L : Type} [AddCommGroup G] [CommRing S] [BEq G2] (toInt : S → Int)
    (isg : G → Bool) (pc : List G → List G2 → Bool) (g0 s0 g1 s1 g2 s2 : G2) (c0 c1 c2 p0 : G) (co : S) :
    pedersen_bw6_761.BatchVerifyMultiVk_n3_3_1 (L := L) toInt isg pc g0 s0 g1 s1 g2 s2 c0 c1 c2 p0 co = Res.ok ↔
      (isg c0 = true ∧ isg c1 = true ∧ (g1 != g0) = false ∧ isg c2 = true ∧ (g2 != g0) = false ∧ isg p0 = true ∧
        pc [c0, toInt (co) • c1, toInt (co * co) • c2, toInt ((1 : S)) • p0 + (0 : G)] [s0, s1, s2, g0] = true) := by
  simp only [pedersen_bw6_761.BatchVerifyMultiVk_n3_3_1]
  split_ifs <;> simp_all

end GV.C17gen
