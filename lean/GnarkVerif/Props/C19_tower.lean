/- C19 (tower part) — receiver and operands may alias in every translated tower method.

   The theorems themselves are GENERATED, one per (method, set partition of the same-typed pointer positions):
     Gen/Tower/<Pkg>Alias.lean     `f_π_alias   : f_π v… = (components of the non-aliased f on equal values)`
                                   `f_π_keeps_r : a cell never written keeps its value`
   proved by `gv_alias` / `gv_frame` (= `rfl`, possibly after case splits): the SSA of a body under an aliasing is
   definitionally its SSA without aliasing exactly when the body reads its inputs before it overwrites them.
   A body that does not breaks the build of the Alias file: this is how `z.DecompressKarabina(x)` of bls24-315/317
   and bw6-761/633 was caught (it squared the stale slot x.<g1> instead of the fresh z.<g1>, so only the aliased
   call z == x was right; fixed in /repo by commit ed8e3f5, after which the four theorems hold), and see
   mutation 3 of scratch/slp/mutate.sh. Alias theorems known to fail can be parked in tools/goslp/slp_known.txt.
   Not modelled: a pointer argument pointing INSIDE another argument (e.g. `z.norm(&z.A0)`); such call sites are
   rejected by the translator, such patterns are not enumerated.
   This file imports all Alias files (`lake build GnarkVerif.Props.C19_tower` checks ~1000 alias and ~1400 frame
   theorems for the 10 tower packages) and states the bn254 headline corollaries against the generic algebra. -/
import GnarkVerif.Props.C06
import GnarkVerif.Gen.Tower.Bls12_381Alias
import GnarkVerif.Gen.Tower.Bls12_377Alias
import GnarkVerif.Gen.Tower.Bls24_315Alias
import GnarkVerif.Gen.Tower.Bls24_317Alias
import GnarkVerif.Gen.Tower.Bw6_761Alias
import GnarkVerif.Gen.Tower.Bw6_633Alias
import GnarkVerif.Gen.Tower.KoalabearAlias
import GnarkVerif.Gen.Tower.BabybearAlias
import GnarkVerif.Gen.Tower.GoldilocksAlias

namespace GV.Gen.Tower.bn254
open GV.Tower
variable {F : Type} [Field F]

/-- z.Mul(z, y): result = z·y, y untouched -/
theorem C19_E12_Mul_z_eq_x (v y : E12 F) :
    (E12.Mul_z_eq_x v y).1.spec = v.spec * y.spec ∧ (E12.Mul_z_eq_x v y).2 = y := by
  simp only [gv_alias, gv_spec, and_self]
/-- z.Mul(x, z) -/
theorem C19_E12_Mul_z_eq_y (v x : E12 F) :
    (E12.Mul_z_eq_y v x).1.spec = x.spec * v.spec ∧ (E12.Mul_z_eq_y v x).2 = x := by
  simp only [gv_alias, gv_spec, and_self]
/-- z.Mul(x, x) -/
theorem C19_E12_Mul_x_eq_y (v : E12 F) :
    (E12.Mul_x_eq_y v).1.spec = v.spec * v.spec ∧ (E12.Mul_x_eq_y v).2 = v := by
  simp only [gv_alias, gv_spec, and_self]
/-- z.Mul(z, z) -/
theorem C19_E12_Mul_all (v : E12 F) : (E12.Mul_all v).spec = v.spec * v.spec := by
  simp only [gv_alias, gv_spec]
/-- z.Square(z), z.Inverse(z), z.CyclotomicSquare(z), z.Conjugate(z) -/
theorem C19_E12_Square_z_eq_x (v : E12 F) : (E12.Square_z_eq_x v).spec = v.spec * v.spec := by
  simp only [gv_alias, gv_spec]
theorem C19_E12_Inverse_z_eq_x (v : E12 F) : (E12.Inverse_z_eq_x v).spec = Fp12.inv v.spec := by
  simp only [gv_alias, gv_spec]
theorem C19_E12_CyclotomicSquare_z_eq_x (v : E12 F) (h : v.Cyclotomic) :
    (E12.CyclotomicSquare_z_eq_x v).spec = v.spec * v.spec := by
  simp only [gv_alias]; exact E12.CyclotomicSquare_spec v h
theorem C19_E6_Mul_all (v : E6 F) : (E6.Mul_all v).spec = v.spec * v.spec := by
  simp only [gv_alias, gv_spec]
theorem C19_E6_Inverse_z_eq_x (v : E6 F) : (E6.Inverse_z_eq_x v).spec = Fp6.inv v.spec := by
  simp only [gv_alias, gv_spec]
theorem C19_E2_Mul_all (v : E2 F) : (E2.Mul_all v).spec = v.spec * v.spec := by
  simp only [gv_alias, gv_spec]
theorem C19_E2_Inverse_z_eq_x (v : E2 F) : (E2.Inverse_z_eq_x v).spec = Fp2.inv v.spec := by
  simp only [gv_alias, gv_spec]
/-- sparse Miller-loop product with all three line coefficients aliased to one cell -/
theorem C19_E12_MulBy034_c_all (z c : E12 F) (e : E2 F) :
    (E12.MulBy034_c0_eq_c3_eq_c4 z e).1.spec = z.spec * sparse034 e e e := by
  simp only [gv_alias]; exact E12.MulBy034_spec z e e e

/-- non-vacuity: the aliased and the non-aliased def really are different constants evaluated on numbers -/
example : (E2.Mul_all (E2.mk (2 : ℚ) 3)).spec = ⟨-5, 12⟩ := by
  ext <;> simp [E2.Mul_all, mulGenericE2_all] <;> norm_num

end GV.Gen.Tower.bn254
