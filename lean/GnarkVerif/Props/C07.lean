import GnarkVerif.Proofs.PointCodec
import GnarkVerif.Proofs.PointCodecStream
import GnarkVerif.Proofs.PointCodecInst
import GnarkVerif.Proofs.PointCodecWriter
import GnarkVerif.Props.C01
/-
C07 — Point and stream codecs round-trip, validate fully and never hide an error.

The theorems are about `Model/PointCodec.lean` for EVERY point / byte string / stream, for an arbitrary coordinate
field given by a `Codec α` (so G1 over Fp, G2 over Fp² / Fp⁴ / Fp are all instances) under the explicit hypotheses
`Codec.OK` (Proofs/PointCodec.lean): canonical component encoding (`to_of`, C08), `p ≤ 2^(8·fb − k)` (the flag bits
are free), `sqrt` sound and complete on right-hand sides of the curve equation, at most two square roots,
`lex (−y) = ¬ lex y` for `y ≠ 0` (C01 `LexicographicallyLargest`), `(0,0)` not on the curve (`b ≠ 0`).
The subgroup predicate `inSub` is an arbitrary `Bool` function. `C07_base_OK` discharges `Codec.OK` for the codec the
driver runs for coordinates in a prime field (G1 of every curve, G2 of BW6) from C01; for the tower fields Fp², Fp⁴
(G2 of BN/BLS12/BLS24) the hypotheses stay hypotheses (the model's `sqrt` there is sound by construction —
it squares its answer — completeness and the order are checked by the correspondence only).

`C.Good sub P` : P is infinity, or has canonical coordinates (`C.Valid`), satisfies `sq y = rhs x` and, when `sub`,
`inSub`.  `Bounded d` : the step `d` never reports more bytes than the stream holds.  `ItemRel`, `Exact` : see
Proofs/PointCodecStream.lean.

Where the Go code does not satisfy the property the model follows the property; the disagreements are the
FINDINGS listed at the end of this file (each one reproduced on the real code by the correspondence harness).
-/
namespace GV.PointCodec
open GV GV.Alg

variable {α β : Type} [DecidableEq α] [DecidableEq β] {C : Codec α}

/-! ## 1. round trip of the single-point methods -/

/-- `SetBytes(Bytes(P)) = (P, SizeOfCompressed)` for every valid P, with or without subgroup check, whatever follows
in the buffer (layouts with flag bits) -/
theorem C07_roundtrip_compressed (h : C.OK) (hL : C.L ≠ .raw) (sub : Bool) (P : Pt α) (hP : C.Good sub P)
    (rest : List UInt8) : C.setBytes sub (C.encCompressed P ++ rest) = .ok (P, C.nbC) :=
  Codec.roundtrip_compressed h hL sub P hP rest

/-- `SetBytes(RawBytes(P)) = (P, SizeOfUncompressed)` for every valid P and every layout -/
theorem C07_roundtrip_raw (h : C.OK) (sub : Bool) (P : Pt α) (hP : C.Good sub P) (rest : List UInt8) :
    C.setBytes sub (C.encRaw P ++ rest) = .ok (P, 2 * C.nbC) :=
  Codec.roundtrip_raw h sub P hP rest

/-! ## 2. acceptance set -/

/-- whatever `setBytes` accepts is infinity or a point with canonical coordinates, on the curve, in the subgroup
unless the check was disabled; the bytes consumed were available and are one of the two frame sizes -/
theorem C07_accept (h : C.OK) (sub : Bool) (buf : List UInt8) (P : Pt α) (n : Nat)
    (hs : C.setBytes sub buf = .ok (P, n)) :
    C.Good sub P ∧ n ≤ buf.length ∧ (n = C.nbC ∨ n = 2 * C.nbC) :=
  Codec.accept h sub buf P n hs

/-- accepted strings carry a valid flag pattern (the flag read back from the frame is one the encoder writes) -/
theorem C07_accept_flag (h : C.OK) (sub : Bool) (buf : List UInt8) (P : Pt α) (n : Nat)
    (hs : C.setBytes sub buf = .ok (P, n)) :
    ∃ fl xs ys, C.parseFrame buf = .ok (fl, xs, ys, n) ∧ fl ≠ .bad ∧ C.L.classify (C.L.code fl) = fl := by
  obtain ⟨fl, xs, ys, _, hpf, _, _⟩ := (Codec.setBytes_ok_iff sub buf P n).mp hs
  have hf := Codec.parseFrame_ok h buf fl xs ys n hpf
  exact ⟨fl, xs, ys, hpf, hf.not_bad, hf.code⟩

/-! ## 3. canonicity -/

/-- an accepted string re-encodes, in the mode it was written in, to the identical bytes; the only alias is the
all-zero uncompressed string for infinity in the 3-bit layout (where `RawBytes(∞)` carries the infinity flag) -/
theorem C07_canonical (h : C.OK) (sub : Bool) (buf : List UInt8) (P : Pt α) (n : Nat)
    (hs : C.setBytes sub buf = .ok (P, n)) :
    (n = C.nbC ∧ buf.take n = C.encCompressed P) ∨ (n = 2 * C.nbC ∧ buf.take n = C.encRaw P) ∨
    (C.L = .three ∧ P = none ∧ n = 2 * C.nbC ∧ buf.take n = List.replicate n 0) :=
  Codec.canonical h sub buf P n hs

/-- decoding looks at the consumed bytes only -/
theorem C07_local (h : C.OK) (sub : Bool) (buf : List UInt8) (P : Pt α) (n : Nat)
    (hs : C.setBytes sub buf = .ok (P, n)) (rest : List UInt8) :
    C.setBytes sub (buf.take n ++ rest) = .ok (P, n) := by
  obtain ⟨fl, xs, ys, pd, hpf, hp1, hp2⟩ := (Codec.setBytes_ok_iff sub buf P n).mp hs
  exact (Codec.setBytes_ok_iff sub _ P n).mpr ⟨fl, xs, ys, pd, Codec.parseFrame_local h buf fl xs ys n hpf rest, hp1, hp2⟩

/-! ## 4. streams: `Decoder.Decode(*G?Affine)` is `SetBytes` -/

theorem C07_decode_point_iff (h : C.OK) (sub : Bool) (bs : List UInt8) (P : Pt α) (n : Nat) :
    C.decPoint sub bs = ⟨.ok P, n⟩ ↔ C.setBytes sub bs = .ok (P, n) :=
  Codec.decPoint_ok_iff h sub bs P n

/-! ## 5. streams: round trip for every supported value type, any mix on one stream, both modes -/

/-- `Decode` after `Encode` returns the value and counts exactly the bytes `Encode` wrote, for uint8/16/32/64,
fr/fp elements, points, point slices, []fr, []fp, [][]fr, [][][]fr, []uint64, [][]uint64 -/
theorem C07_stream_roundtrip_value (E : Env α β) (hE : EnvOK E) (raw sub : Bool)
    (hL : raw = false → E.C1.L ≠ .raw ∧ E.C2.L ≠ .raw) (v : Val α β) (hv : ValOK E sub v) (rest : List UInt8) :
    decodeVal E sub v.ty (encodeVal E raw v ++ rest) = ⟨.ok v, (encodeVal E raw v).length⟩ :=
  decodeVal_roundtrip E hE raw sub hL v hv rest

/-- any sequence of `Encode` calls of mixed types followed by the same sequence of `Decode` calls: all values come
back, no error, `BytesRead = BytesWritten` -/
theorem C07_stream_roundtrip (E : Env α β) (hE : EnvOK E) (raw sub : Bool)
    (hL : raw = false → E.C1.L ≠ .raw ∧ E.C2.L ≠ .raw) (vs : List (Val α β)) (hv : ∀ v ∈ vs, ValOK E sub v)
    (rest : List UInt8) :
    decodeSeq E sub (vs.map Val.ty) (encodeSeq E raw vs ++ rest) = (vs, none, (encodeSeq E raw vs).length) :=
  decodeSeq_roundtrip E hE raw sub hL vs hv rest

/-! ## 6. streams: byte counters -/

/-- every `Decode` call, successful or not, counts at most the bytes the stream holds -/
theorem C07_counter_bounded (E : Env α β) (hE : EnvOK E) (sub : Bool) (t : Ty) (bs : List UInt8) :
    (decodeVal E sub t bs).n ≤ bs.length :=
  decodeVal_bounded E hE sub t bs

theorem C07_counter_bounded_seq (E : Env α β) (hE : EnvOK E) (sub : Bool) (ts : List Ty) (bs : List UInt8) :
    (decodeSeq E sub ts bs).2.2 ≤ bs.length :=
  decodeSeq_bounded E hE sub ts bs

/-- for every prefix of the calls the counter is what that prefix consumed; the following calls read exactly the
rest of the stream; the first error ends the sequence (values decoded before it are kept, nothing after it) -/
theorem C07_counter_prefix (E : Env α β) (sub : Bool) (ts1 ts2 : List Ty) (bs : List UInt8) :
    decodeSeq E sub (ts1 ++ ts2) bs =
      match decodeSeq E sub ts1 bs with
      | (vs1, some e, n1) => (vs1, some e, n1)
      | (vs1, none, n1) =>
        ((vs1 ++ (decodeSeq E sub ts2 (bs.drop n1)).1), (decodeSeq E sub ts2 (bs.drop n1)).2.1,
          n1 + (decodeSeq E sub ts2 (bs.drop n1)).2.2) :=
  decodeSeq_append E sub ts1 ts2 bs

/-- `BytesWritten` is additive over the `Encode` calls -/
theorem C07_counter_written (E : Env α β) (raw : Bool) (vs ws : List (Val α β)) :
    (encodeSeq E raw (vs ++ ws)).length = (encodeSeq E raw vs).length + (encodeSeq E raw ws).length := by
  rw [encodeSeq_append, List.length_append]

/-! ## 7. streams: no error is hidden -/

/-- in any length-prefixed sequence (slice, vector, and by nesting: vector of vectors, …), an item that fails after
`i` good items makes the whole `Decode` fail with that error, however many items were still announced -/
theorem C07_error_propagates {τ : Type} (item : List UInt8 → DR τ) (i j : Nat) (bs : List UInt8) (hl : 4 ≤ bs.length)
    (hlen : beToNat (bs.take 4) = i + 1 + j) (vs : List τ) (n1 : Nat) (e : Err) (m : Nat)
    (h1 : decMany item i (bs.drop 4) = ⟨.ok vs, n1⟩) (h2 : item (bs.drop (4 + n1)) = ⟨.error e, m⟩) :
    decPrefixed item bs = ⟨.error e, 4 + (n1 + m)⟩ :=
  decPrefixed_error_at item i j bs hl hlen vs n1 e m h1 h2

/-- [][]fr.Element: a failing inner vector at ANY index (not only the last one) fails the decode -/
theorem C07_error_propagates_nested (E : Env α β) (sub : Bool) (i j : Nat) (bs : List UInt8) (hl : 4 ≤ bs.length)
    (hlen : beToNat (bs.take 4) = i + 1 + j) (vs : List (List Nat)) (n1 : Nat) (e : Err) (m : Nat)
    (h1 : decMany (decPrefixed (decElem E.frQ E.frB)) i (bs.drop 4) = ⟨.ok vs, n1⟩)
    (h2 : decPrefixed (decElem E.frQ E.frB) (bs.drop (4 + n1)) = ⟨.error e, m⟩) :
    decodeVal E sub .frss bs = ⟨.error e, 4 + (n1 + m)⟩ := by
  simp only [decodeVal]
  rw [decPrefixed_error_at _ i j bs hl hlen vs n1 e m h1 h2]; rfl

/-- [][][]fr.Element: the same one level deeper -/
theorem C07_error_propagates_nested3 (E : Env α β) (sub : Bool) (i j : Nat) (bs : List UInt8) (hl : 4 ≤ bs.length)
    (hlen : beToNat (bs.take 4) = i + 1 + j) (vs : List (List (List Nat))) (n1 : Nat) (e : Err) (m : Nat)
    (h1 : decMany (decPrefixed (decPrefixed (decElem E.frQ E.frB))) i (bs.drop 4) = ⟨.ok vs, n1⟩)
    (h2 : decPrefixed (decPrefixed (decElem E.frQ E.frB)) (bs.drop (4 + n1)) = ⟨.error e, m⟩) :
    decodeVal E sub .frsss bs = ⟨.error e, 4 + (n1 + m)⟩ := by
  simp only [decodeVal]
  rw [decPrefixed_error_at _ i j bs hl hlen vs n1 e m h1 h2]; rfl

/-- conversely a nested vector is accepted only if the consumed bytes are exactly the encoding of the returned
value and every element is reduced: no malformed element anywhere -/
theorem C07_nested_accept (E : Env α β) (bs : List UInt8) (l : List (List (List Nat))) (n : Nat)
    (hd : decPrefixed (decPrefixed (decPrefixed (decElem E.frQ E.frB))) bs = ⟨.ok l, n⟩) :
    n ≤ bs.length ∧ bs.take n = encPrefixed (encPrefixed (encPrefixed (putBE E.frB))) l ∧
      ∀ u ∈ l, ∀ v ∈ u, ∀ w ∈ v, w < E.frQ := by
  obtain ⟨hn, htake, _, hall⟩ := decPrefixed_rel (decPrefixed_rel (decPrefixed_rel (decElem_rel E.frQ E.frB))) bs l n hd
  exact ⟨hn, htake, fun u hu v hv w hw => ((hall u hu).2 v hv).2 w hw⟩

/-- point slices: the decode succeeds only if the stream is the length prefix followed by chunks each of which
`SetBytes` accepts entirely, yielding the returned points — the two-phase decoding validates every item -/
theorem C07_slice_items_validated (h : C.OK) (sub : Bool) (bs : List UInt8) (l : List (Pt α)) (n : Nat)
    (hd : C.decPoints sub bs = ⟨.ok l, n⟩) :
    n ≤ bs.length ∧ ∃ chunks, bs.take n = putBE 4 l.length ++ chunks.flatten ∧
      List.Forall₂ (fun chunk P => C.setBytes sub chunk = .ok (P, chunk.length)) chunks l :=
  Codec.decPoints_items h sub bs l n hd

/-- a point that fails the sequential phase (short read, flag, infinity payload, non-canonical coordinate) at any
index fails the slice with its error … -/
theorem C07_slice_error_phase1 (sub : Bool) (i j : Nat) (bs : List UInt8) (hl : 4 ≤ bs.length)
    (hlen : beToNat (bs.take 4) = i + 1 + j) (pds : List (Pending α)) (n1 : Nat) (e : Err) (m : Nat)
    (h1 : decMany C.decPointP1 i (bs.drop 4) = ⟨.ok pds, n1⟩) (h2 : C.decPointP1 (bs.drop (4 + n1)) = ⟨.error e, m⟩) :
    C.decPoints sub bs = ⟨.error e, 4 + (n1 + m)⟩ :=
  Codec.decPoints_error_phase1 sub i j bs hl hlen pds n1 e m h1 h2

/-- … and one that fails the validation phase (no square root, wrong sign flag, off the curve, outside the
subgroup) at any index fails it too -/
theorem C07_slice_error_phase2 (sub : Bool) (bs : List UInt8) (pds : List (Pending α)) (n : Nat)
    (pd : Pending α) (e : Err) (h1 : decPrefixed C.decPointP1 bs = ⟨.ok pds, n⟩) (hm : pd ∈ pds)
    (he : C.phase2 sub pd = .error e) : C.decPoints sub bs = ⟨.error .batch, n⟩ :=
  Codec.decPoints_error_phase2 sub bs pds n pd e h1 hm he

/-! ## 8. the hypotheses hold for prime-field coordinates (G1) -/

/-- for the codec the driver runs over the prime field of a field package, `Codec.OK` follows from C01:
`P.OK` (`C01_params_ok`), primality of the modulus (named hypothesis), the flag bits being free, `b ≠ 0`, and
completeness of the reference square root (`C01_sqrt_3mod4` for q ≡ 3 mod 4, `C01_sqrt_TS` otherwise) -/
theorem C07_base_OK (P : Field.Params) [Fact P.q.Prime] (hP : P.OK) (L : Layout) (fb a b r : Nat)
    (hk : L.k ≤ 8 * fb) (hp : P.q ≤ 2 ^ (8 * fb - L.k)) (hb : b % P.q ≠ 0)
    (hsq : ∀ v, Field.sqrtRegular P v = none → ¬ Field.IsSqMod P.q v) :
    (baseCodec P L fb a b r).OK :=
  baseCodec_OK hP L fb a b r hk hp hb hsq

/-- … and all closed side conditions are discharged by evaluation for the ten curve packages of the table: the G1
codec the driver runs (bn254, bls12-377, bls12-381, bls24-315, bls24-317, bw6-633, bw6-761, grumpkin, stark-curve,
secp256k1) satisfies `Codec.OK` as soon as the base modulus is prime -/
theorem C07_G1_OK (d : CurveDesc) (hd : d ∈ curves) [Fact d.fpP.q.Prime] : d.codec1.OK :=
  g1_codec_OK d hd

/-- the same for G2 of the BW6 curves, whose coordinates are in Fp -/
theorem C07_G2fp_OK (d : CurveDesc) (hd : d ∈ curves) (hg : d.g2 = .fp) [Fact d.fpP.q.Prime] : d.codecFp2.OK :=
  g2fp_codec_OK d hd hg

/-! ## 9. non-vacuity: a toy instance — y² = x³ + 3 over F₁₃ (9 points), 2-bit layout, one byte per coordinate -/

section toy
open GV.Field

def toy : Codec Nat := baseCodec p13 .two 1 0 3 9

theorem toy_OK : toy.OK :=
  C07_base_OK p13 ok13 .two 1 0 3 9 (by decide) (by decide) (by decide)
    (fun v => (C01_sqrt_TS p13 ok13 (by decide) v).2.mp)

theorem toy_good : toy.Good true (some (1, 2)) :=
  ⟨(base_valid_iff _ _ _ _ _ _).mpr (by decide), (base_valid_iff _ _ _ _ _ _).mpr (by decide), by decide,
    fun _ => by decide⟩

example : toy.encCompressed (some (1, 2)) = [0x81] := by decide
example : toy.encRaw (some (1, 2)) = [0x01, 0x02] := by decide
example : toy.setBytes true (toy.encCompressed (some (1, 2)) ++ [0xff]) = .ok (some (1, 2), 1) :=
  C07_roundtrip_compressed toy_OK (by decide) true _ toy_good [0xff]
example : toy.setBytes true (toy.encRaw (some (1, 2)) ++ []) = .ok (some (1, 2), 2) :=
  C07_roundtrip_raw toy_OK true _ toy_good []
example : toy.setBytes true [0xc1, 0x55] = .ok (some (1, 11), 1) := by rfl
example : toy.Good true (some (1, 11)) ∧ 1 ≤ [0xc1, 0x55].length ∧ (1 = toy.nbC ∨ 1 = 2 * toy.nbC) :=
  C07_accept toy_OK true [0xc1, 0x55] (some (1, 11)) 1 (by rfl)
example : ([0xc1, 0x55] : List UInt8).take 1 = toy.encCompressed (some (1, 11)) := by decide
-- rejected strings: infinity flag with payload, x with no point, off-curve raw point without subgroup check, x = p
example : toy.setBytes true [0x41] = .error .inf := by rfl
example : toy.setBytes true [0x40] = .ok (none, 1) := by rfl
example : toy.setBytes true [0x82] = .error .nosqrt := by rfl
example : toy.setBytes false [0x01, 0x03] = .error .offcurve := by rfl
example : toy.setBytes true [0x8d] = .error .noncanon := by rfl
example : toy.setBytes true [0x01] = .error .short := by rfl

def toyEnv : Env Nat Nat := { frQ := 7, frB := 1, fpQ := 13, fpB := 1, C1 := toy, C2 := toy }
theorem toyEnv_OK : EnvOK toyEnv := ⟨toy_OK, toy_OK, by decide, by decide⟩

-- a mixed stream: uint16, [][]fr, a point slice; decode = encode⁻¹ and BytesRead = BytesWritten
example :
    decodeSeq toyEnv true [.u 2, .frss, .g1s]
      (encodeSeq toyEnv false [.u 2 0x1234, .frss [[1, 2], [], [6]], .g1s [some (1, 2), none]] ++ [9]) =
      ([.u 2 0x1234, .frss [[1, 2], [], [6]], .g1s [some (1, 2), none]], none, 27) := by
  have := C07_stream_roundtrip toyEnv toyEnv_OK false true (fun _ => ⟨by decide, by decide⟩)
    [.u 2 0x1234, .frss [[1, 2], [], [6]], .g1s [some (1, 2), none]]
    (by
      intro v hv
      simp only [List.mem_cons, List.not_mem_nil, or_false] at hv
      rcases hv with rfl | rfl | rfl
      · show (0x1234 : Nat) < 256 ^ 2; decide
      · refine ⟨by decide, ?_⟩; intro v hv; refine ⟨?_, ?_⟩
        · simp only [List.mem_cons, List.not_mem_nil, or_false] at hv; rcases hv with rfl | rfl | rfl <;> decide
        · intro w hw
          simp only [List.mem_cons, List.not_mem_nil, or_false] at hv
          rcases hv with rfl | rfl | rfl <;> simp at hw <;> (try rcases hw with rfl | rfl) <;> (try subst hw) <;>
            (show _ < 7) <;> decide
      · refine ⟨by decide, ?_⟩; intro P hP
        simp only [List.mem_cons, List.not_mem_nil, or_false] at hP
        rcases hP with rfl | rfl
        · exact toy_good
        · trivial) [9]
  exact this
-- the non-canonical element 7 sits in the FIRST inner vector of [[7],[1]]: the whole decode fails
example : decodeVal toyEnv true .frss [0, 0, 0, 2, 0, 0, 0, 1, 7, 0, 0, 0, 1, 1] = ⟨.error .noncanon, 9⟩ := by rfl
-- a bad point in the middle of a slice (x = 2 has no point)
example : (decodeVal toyEnv true .g1s [0, 0, 0, 3, 0x81, 0x82, 0x81]).res = .error .batch := by rfl

end toy

/-! ## 10. `Encoder.Encode` on a writer that fails: no write error is hidden

The writer accepts byte budgets one after the other (`Budgets`, Model/PointCodec.lean): `[k]` accepts exactly `k`
bytes and then fails for ever, `[k, m, …]` fails once after `k` bytes and works again (a transient failure).
`encodeTo E raw w v = (bytes the writer accepted, error reported by Encode, writer afterwards)`;
`BytesWritten` advances by the number of accepted bytes. -/

/-- the `Write` calls `Encode(v)` makes (one per integer / element / point / length prefix) concatenate to the
encoding of `v` -/
theorem C07_encode_chunks (E : Env α β) (raw : Bool) (v : Val α β) :
    (encodeChunks E raw v).flatten = encodeVal E raw v :=
  encodeChunks_flatten E raw v

/-- an `Encode` that stops at the first failed `Write` behaves, on every writer, as ONE `Write` of the whole
encoding — however the encoding is cut into `Write` calls -/
theorem C07_encodeTo_one_write (E : Env α β) (raw : Bool) (w : Budgets) (v : Val α β) :
    encodeTo E raw w v = wWrite w (encodeVal E raw v) :=
  encodeTo_eq_write E raw w v

/-- the writer that accepts exactly `k` bytes: `Encode` reports an error iff `k` is less than the length of the
encoding, and the bytes that reached the writer are the first `k` bytes of the encoding (so `BytesWritten` is
`min k length`) -/
theorem C07_encodeTo_limit (E : Env α β) (raw : Bool) (k : Nat) (v : Val α β) :
    (encodeTo E raw [k] v).1 = (encodeVal E raw v).take k ∧
    ((encodeTo E raw [k] v).2.1 = true ↔ k < (encodeVal E raw v).length) := by
  rw [encodeTo_eq_write]
  by_cases h : (encodeVal E raw v).length ≤ k
  · rw [wWrite_cons_le k [] _ h]
    exact ⟨(List.take_of_length_le h).symm, by simp; omega⟩
  · rw [wWrite_cons_gt k [] _ h]
    exact ⟨rfl, by simp; omega⟩

/-- every writer: what reached it is a prefix of the encoding; a nil error means the WHOLE encoding reached it; an
error means strictly less did -/
theorem C07_encodeTo_no_hidden_error (E : Env α β) (raw : Bool) (w : Budgets) (v : Val α β) :
    (encodeTo E raw w v).1 <+: encodeVal E raw v ∧
    ((encodeTo E raw w v).2.1 = false → (encodeTo E raw w v).1 = encodeVal E raw v) ∧
    ((encodeTo E raw w v).2.1 = true → (encodeTo E raw w v).1.length < (encodeVal E raw v).length) := by
  rw [encodeTo_eq_write]
  exact ⟨wWrite_prefix _ _, wWrite_ok _ _, wWrite_err _ _⟩

/-- when `Encode` reports no error, what the writer holds decodes back to the value and `BytesRead` is the number of
bytes the writer accepted -/
theorem C07_encodeTo_roundtrip (E : Env α β) (hE : EnvOK E) (raw sub : Bool)
    (hL : raw = false → E.C1.L ≠ .raw ∧ E.C2.L ≠ .raw) (w : Budgets) (v : Val α β) (hv : ValOK E sub v)
    (rest : List UInt8) (hok : (encodeTo E raw w v).2.1 = false) :
    decodeVal E sub v.ty ((encodeTo E raw w v).1 ++ rest) = ⟨.ok v, (encodeTo E raw w v).1.length⟩ := by
  rw [(C07_encodeTo_no_hidden_error E raw w v).2.1 hok]
  exact decodeVal_roundtrip E hE raw sub hL v hv rest

/-- several `Encode` calls on ONE encoder whose writer accepts exactly `k` bytes: the writer holds the first `k` bytes
of the concatenated encodings, and no call reports an error iff everything fitted -/
theorem C07_encodeSeqTo_limit (E : Env α β) (raw : Bool) (k : Nat) (vs : List (Val α β)) :
    seqWritten (encodeSeqTo E raw [k] vs) = (encodeSeq E raw vs).take k ∧
    (seqClean (encodeSeqTo E raw [k] vs) = true ↔ (encodeSeq E raw vs).length ≤ k) :=
  ⟨encodeSeqTo_limit_written E raw k vs, encodeSeqTo_limit_clean E raw k vs⟩

-- [][]fr = [[1],[2]] is 00000002 00000001 01 00000001 02: the writer fails in the FIRST inner vector …
example : encodeTo toyEnv false [8] (.frss [[1], [2]]) = ([0, 0, 0, 2, 0, 0, 0, 1], true, []) := by decide
-- … and an error is reported also when the writer works again for the rest (here the last inner vector is empty)
example : encodeTo toyEnv false [8, 100] (.frss [[1], []]) = ([0, 0, 0, 2, 0, 0, 0, 1], true, [100]) := by decide
example : encodeTo toyEnv false [14] (.frss [[1], [2]]) = ([0, 0, 0, 2, 0, 0, 0, 1, 1, 0, 0, 0, 1, 2], false, [0]) := by
  decide
-- two calls on one encoder, the first one fails inside its length prefix, the second one goes through
example : encodeSeqTo toyEnv false [2, 100] [.frs [3], .u 2 0x0102] = [([0, 0], true), ([1, 2], false)] := by decide

/-
FINDINGS (Go code vs. the property; the model follows the property; op lines for `gvharness -mode exec`):
 F1  Decoder.Decode(*[][]fr.Element / *[][][]fr.Element) overwrites `err` in its loop (marshal.go.tmpl, generated
     ecc/<curve>/marshal.go `case *[][]fr.Element:` / `case *[][][]fr.Element:`): a non-canonical element in an inner
     vector that is not the last one is accepted, the rest of the stream is then read misaligned.
 F2  setBytes, uncompressed branch: with NoSubgroupChecks() no curve equation check at all (IsInSubGroup is the only
     place that calls IsOnCurve): an off-curve point is returned with a nil error (single points and slices).
 F3  compressed decoding of x with x³+ax+b = 0 (2-torsion, y = 0) is accepted from both the "smallest" and the
     "largest" flag when subgroup checks are off (bls12-377, bls24-315, bw6-633, bw6-761 G1 …): non-canonical alias.
 F4  attacker-chosen uint32 lengths allocate before any byte is read (`make([]T, sliceLen)`, fr.Vector.ReadFrom):
     a 12-byte stream makes Decode(*[][]fr.Element) ask for tens of GB (fatal "out of memory", not recoverable).
 F5  secp256k1 G1Affine.SetBytes checks `len(buf) < SizeOfG1AffineCompressed` (32) but reads 64 bytes: panics
     (slice bounds out of range) for 32 ≤ len(buf) < 64.
 F6  Decoder default case (`binary.Read` of uint8/16/32/64): on a short read the bytes taken from the reader are not
     added to `dec.n` (BytesRead ≠ bytes consumed on that error path).
 F7  stark-curve setBytes / unsafeSetCompressedBytes: the infinity flag is accepted without checking that the payload is
     zero (32 arbitrary bytes with top bits 01 decode to infinity): non-canonical encodings of infinity.
 F8  bw6-633 G1 and bw6-761 G2 IsInSubGroup return true for the order-3 points (0, ±2) (and [2] of them) of
     y² = x³ + 4: SetBytes with subgroup check accepts a point outside the prime-order subgroup.
 F9  Encoder.BytesWritten is not the number of bytes the writer accepted when a `binary.Write` fails: a failed write
     of a uint32 length prefix (`binary.Write` in encode / encodeRaw, `fr.Vector.WriteTo`) that the writer accepted 1..3
     bytes of is not counted at all; a failed write of a fixed-size integer (default case) is counted in full.
     (The error itself is reported.)
-/

/-! ## decode histories on re-used destinations -/

/-- Decoding into destinations that already hold values (the caller's slices / points / vectors from earlier `Decode`
calls, `prev`) gives exactly what decoding the last stream into fresh destinations gives: no earlier content survives,
whatever the earlier streams were and whether they failed or not. (By-value model; the Go decoder re-uses the
caller's slice when the lengths agree — the correspondence ops `sdec … A>B` and `dec … <pt>><hex>` test that every
item is overwritten, including infinity / zero items.) -/
theorem C07_history_independent (E : Env α β) (sub : Bool) (ts : List Ty)
    (prev : List (Val α β) × Option Err × Nat) (earlier : List (List UInt8)) (b : List UInt8) :
    decodeHistFrom E sub ts prev (earlier ++ [b]) = decodeSeq E sub ts b := by
  induction earlier generalizing prev with
  | nil => simp [decodeHistFrom]
  | cons a rest ih => simpa [decodeHistFrom] using ih _

example : (decodeHist toyEnv true [.g1s] [[0, 0, 0, 1, 0x81], [0, 0, 0, 1, 0x40]]).1.length = 1 := by rfl

end GV.PointCodec
