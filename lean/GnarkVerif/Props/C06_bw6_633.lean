/- C06 — extension-field and GT operations agree with generic arithmetic in F_p^k (bw6-633 tower:
   E3 = Fp[v]/(v³ = 2), E6 = E3[w]/(w² = v)).
   Every theorem is about a def GENERATED from the Go source (Gen/Tower/Bw6_633.lean). -/
import GnarkVerif.Proofs.TowerBw6_633
import Mathlib.Tactic.NormNum
import Mathlib.Data.Rat.Init

namespace GV.Gen.Tower.bw6_633
open GV.Tower

section ring
variable {F : Type} [CommRing F]

/-- fp.Element.MulByNonResidue (bw6_utils.go): x ↦ nr·x -/
@[gv_spec] theorem Fp.MulByNonResidue_spec (x : F) : (Fp.MulByNonResidue x).1 = nr * x := by
  simp [Fp.MulByNonResidue, nr]; ring

/-! ## E3 = Fp[v]/(v³ = nr) -/
@[gv_spec] theorem E3.Set_spec (x : E3 F) : (E3.Set x).1.spec = x.spec := rfl
@[gv_spec] theorem E3.SetZero_spec : (E3.SetZero (F := F)).spec = 0 := rfl
@[gv_spec] theorem E3.SetOne_spec : (E3.SetOne (F := F)).spec = 1 := rfl
@[gv_spec] theorem E3.Add_spec (x y : E3 F) : (E3.Add x y).1.spec = x.spec + y.spec := rfl
@[gv_spec] theorem E3.Sub_spec (x y : E3 F) : (E3.Sub x y).1.spec = x.spec - y.spec := rfl
@[gv_spec] theorem E3.Neg_spec (x : E3 F) : (E3.Neg x).1.spec = -x.spec := rfl
@[gv_spec] theorem E3.Double_spec (x : E3 F) : (E3.Double x).1.spec = x.spec + x.spec := rfl
@[gv_spec] theorem E3.Mul_spec (x y : E3 F) : (E3.Mul x y).1.spec = x.spec * y.spec := by
  ext <;> simp [E3.Mul, gv_alias, gv_spec] <;> ring
@[gv_spec] theorem E3.MulAssign_spec (z x : E3 F) : (E3.MulAssign z x).1.spec = z.spec * x.spec := by
  simp only [E3.MulAssign, gv_alias, gv_spec]
@[gv_spec] theorem E3.Square_spec (x : E3 F) : (E3.Square x).1.spec = x.spec * x.spec := by
  ext <;> simp [E3.Square, gv_alias, gv_spec] <;> ring
/-- multiplication by v -/
@[gv_spec] theorem E3.MulByNonResidue_spec (x : E3 F) :
    (E3.MulByNonResidue x).1.spec = CubicExt.gen * x.spec := by
  ext <;> simp [E3.MulByNonResidue, gv_alias, gv_spec]
@[gv_spec] theorem E3.MulByElement_spec (x : E3 F) (y : F) :
    (E3.MulByElement x y).1.spec = x.spec * CubicExt.ofBase y := by
  ext <;> simp [E3.MulByElement]
@[gv_spec] theorem E3.MulBy01_spec (z : E3 F) (c0 c1 : F) :
    (E3.MulBy01 z c0 c1).1.spec = z.spec * ⟨c0, c1, 0⟩ := by
  ext <;> simp [E3.MulBy01, gv_alias, gv_spec] <;> ring
@[gv_spec] theorem E3.MulBy1_spec (z : E3 F) (c1 : F) :
    (E3.MulBy1 z c1).1.spec = z.spec * ⟨0, c1, 0⟩ := by
  ext <;> simp [E3.MulBy1, gv_alias, gv_spec] <;> ring
@[gv_spec] theorem E3.MulBy12_spec (x : E3 F) (b1 b2 : F) :
    (E3.MulBy12 x b1 b2).1.spec = x.spec * ⟨0, b1, b2⟩ := by
  ext <;> simp [E3.MulBy12, gv_alias, gv_spec] <;> ring

/-! ## E6 = E3[w]/(w² = v) -/
@[gv_spec] theorem E6.Set_spec (x : E6 F) : (E6.Set x).1.spec = x.spec := rfl
@[gv_spec] theorem E6.SetOne_spec : (E6.SetOne (F := F)).spec = 1 := rfl
@[gv_spec] theorem E6.Add_spec (x y : E6 F) : (E6.Add x y).1.spec = x.spec + y.spec := rfl
@[gv_spec] theorem E6.Sub_spec (x y : E6 F) : (E6.Sub x y).1.spec = x.spec - y.spec := rfl
@[gv_spec] theorem E6.Double_spec (x : E6 F) : (E6.Double x).1.spec = x.spec + x.spec := rfl
@[gv_spec] theorem E6.Conjugate_spec (x : E6 F) : (E6.Conjugate x).1.spec = QuadExt.conj x.spec := rfl
@[gv_spec] theorem E6.InverseUnitary_spec (x : E6 F) :
    (E6.InverseUnitary x).1.spec = QuadExt.conj x.spec := rfl
@[gv_spec] theorem E6.Mul_spec (x y : E6 F) : (E6.Mul x y).1.spec = x.spec * y.spec := by
  gv_level E6.Mul
@[gv_spec] theorem E6.Square_spec (x : E6 F) : (E6.Square x).1.spec = x.spec * x.spec := by
  gv_level E6.Square

/-! ### sparse products used by the Miller loop -/
def sparse014 (c0 c1 c4 : F) : Fp6 F := ⟨⟨c0, c1, 0⟩, ⟨0, c4, 0⟩⟩
def Arr5.spec01245 (x : Arr5 F) : Fp6 F := ⟨⟨x.e0, x.e1, x.e2⟩, ⟨0, x.e3, x.e4⟩⟩

theorem E6.MulBy014_spec (z : E6 F) (c0 c1 c4 : F) :
    (E6.MulBy014 z c0 c1 c4).1.spec = z.spec * sparse014 c0 c1 c4 := by
  gv_level2 E6.MulBy014, sparse014
theorem E6.MulBy01_spec (z : E6 F) (c0 c1 : F) :
    (E6.MulBy01 z c0 c1).1.spec = z.spec * ⟨⟨c0, c1, 0⟩, ⟨0, 1, 0⟩⟩ := by
  gv_level2 E6.MulBy01
theorem Mul014By014_spec (d0 d1 d4 c0 c1 c4 : F) :
    (Mul014By014 d0 d1 d4 c0 c1 c4).1.spec01245 = sparse014 d0 d1 d4 * sparse014 c0 c1 c4 := by
  gv_level2 Mul014By014, Arr5.spec01245, sparse014
theorem Mul01By01_spec (d0 d1 c0 c1 : F) :
    (Mul01By01 d0 d1 c0 c1).1.spec01245 = (⟨⟨d0, d1, 0⟩, ⟨0, 1, 0⟩⟩ : Fp6 F) * ⟨⟨c0, c1, 0⟩, ⟨0, 1, 0⟩⟩ := by
  gv_level2 Mul01By01, Arr5.spec01245
theorem E6.MulBy01245_spec (z : E6 F) (x : Arr5 F) :
    (E6.MulBy01245 z x).1.spec = z.spec * x.spec01245 := by
  gv_level2 E6.MulBy01245, Arr5.spec01245

/-! ### cyclotomic squaring (Granger–Scott): Fp6 = Fp2[y]/(y³ = t), Fp2 = Fp[t]/(t² = nr), y = w, t = w³ -/
abbrev Fp2' (F : Type) [CommRing F] := QuadExt F (nr : F)
def E6.gsA (x : E6 F) : Fp2' F := ⟨x.B0.A0, x.B1.A1⟩
def E6.gsB (x : E6 F) : Fp2' F := ⟨x.B1.A0, x.B0.A2⟩
def E6.gsC (x : E6 F) : Fp2' F := ⟨x.B0.A1, x.B1.A2⟩
/-- the Granger–Scott equations of the cyclotomic subgroup (see Props/C06.lean) -/
structure E6.Cyclotomic (x : E6 F) : Prop where
  r1 : x.gsB * x.gsC * QuadExt.gen = x.gsA * x.gsA - QuadExt.conj x.gsA
  r2 : x.gsA * x.gsB = QuadExt.gen * (x.gsC * x.gsC) + QuadExt.conj x.gsB
  r3 : x.gsA * x.gsC = x.gsB * x.gsB - QuadExt.conj x.gsC

theorem E6.CyclotomicSquare_spec (x : E6 F) (h : x.Cyclotomic) :
    (E6.CyclotomicSquare x).1.spec = x.spec * x.spec := by
  have h1a := congrArg QuadExt.a0 h.r1
  have h1b := congrArg QuadExt.a1 h.r1
  have h2a := congrArg QuadExt.a0 h.r2
  have h2b := congrArg QuadExt.a1 h.r2
  have h3a := congrArg QuadExt.a0 h.r3
  have h3b := congrArg QuadExt.a1 h.r3
  simp only [E6.gsA, E6.gsB, E6.gsC, gv_proj] at h1a h1b h2a h2b h3a h3b
  ext : 2 <;> simp only [E6.CyclotomicSquare, gv_alias, gv_spec, gv_proj]
  · linear_combination (-2 : F) * h1a
  · linear_combination (-2 : F) * h3a
  · linear_combination (-2 : F) * h2b
  · linear_combination (-2 : F) * h2a
  · linear_combination (-2 : F) * h1b
  · linear_combination (-2 : F) * h3b

example : (E6.SetOne (F := ℚ)).Cyclotomic := by
  constructor <;> ext <;> simp [E6.SetOne, E3.SetOne, E6.gsA, E6.gsB, E6.gsC]

theorem E6.CyclotomicSquareCompressed_eq (z x : E6 F) :
    let r := (E6.CyclotomicSquareCompressed z x).1
    let s := (E6.CyclotomicSquare x).1
    r.B0.A1 = s.B0.A1 ∧ r.B0.A2 = s.B0.A2 ∧ r.B1.A0 = s.B1.A0 ∧ r.B1.A2 = s.B1.A2 ∧
    r.B0.A0 = z.B0.A0 ∧ r.B1.A1 = z.B1.A1 := by
  intro r s
  refine ⟨?_, ?_, ?_, ?_, rfl, rfl⟩ <;>
    (simp only [r, s, E6.CyclotomicSquareCompressed, E6.CyclotomicSquare, gv_alias, gv_spec]; ring)

end ring

section field
variable {F : Type} [Field F]

/-! ## inverses -/
abbrev Fp3.inv (x : Fp3 F) : Fp3 F := CubicExt.invWith (·⁻¹) x
abbrev Fp6.inv (x : Fp6 F) : Fp6 F := QuadExt.invWith Fp3.inv x

@[gv_spec] theorem E3.Inverse_spec (x : E3 F) : (E3.Inverse x).1.spec = Fp3.inv x.spec := by
  ext <;> simp only [E3.Inverse, gv_alias, gv_spec, gv_proj, CubicExt.invWith, CubicExt.norm, CubicExt.adj] <;> ring
@[gv_spec] theorem E6.Inverse_spec (x : E6 F) : (E6.Inverse x).1.spec = Fp6.inv x.spec := by
  ext : 1 <;> simp only [E6.Inverse, gv_alias, gv_spec, gv_proj, Fp6.inv, QuadExt.invWith, QuadExt.norm] <;> ring_nf

theorem Fp3.mul_inv (x : Fp3 F) (h : x.norm ≠ 0) : x * Fp3.inv x = 1 :=
  CubicExt.mul_invWith _ x (mul_inv_cancel₀ h)
theorem Fp6.mul_inv (x : Fp6 F) (h : x.norm.norm ≠ 0) : x * Fp6.inv x = 1 :=
  QuadExt.mul_invWith Fp3.inv x (Fp3.mul_inv x.norm h)
theorem E3.mul_Inverse (x : E3 F) (h : x.spec.norm ≠ 0) : x.spec * (E3.Inverse x).1.spec = 1 := by
  rw [E3.Inverse_spec]; exact Fp3.mul_inv _ h
theorem E6.mul_Inverse (x : E6 F) (h : x.spec.norm.norm ≠ 0) : x.spec * (E6.Inverse x).1.spec = 1 := by
  rw [E6.Inverse_spec]; exact Fp6.mul_inv _ h

example : (E3.mk (1 : ℚ) 1 0).spec.norm ≠ 0 := by simp [CubicExt.norm, CubicExt.adj, nr]; norm_num

end field

end GV.Gen.Tower.bw6_633
