/-
C07 — prelude of the GENERATED point-codec dispatch (tools/goslp/pointcodec.go → Gen/PointCodec/<Curve>.lean): the Go-level error values,
the primitives on base-field elements that the translation leaves as PARAMETERS, and the byte-slice primitives (`s[i:j]`, `copy`, a window
write). Core-only.
-/
namespace GV.PointCodecGo

/-- the error values `setBytes` returns, as written in the Go text; `outOfRange` is the guard the translator emits for every index / slice
bound on the slice parameter (Go would panic or read up to `cap`) — the theorems prove it unreachable -/
inductive GoErr
  | ErrShortBuffer | ErrInvalidInfinityEncoding | ErrInvalidEncoding | setBytesCanonical | new (msg : String) | outOfRange
deriving DecidableEq, Repr

/-- what the translation does not open: base-field element methods and the subgroup test of the point -/
structure Prims (F : Type) where
  zero : F                                   -- SetZero / the zero value of `var x fp.Element`
  isZero : F → Bool                          -- IsZero
  setBytesCanonical : List UInt8 → Option F  -- SetBytesCanonical (`none`: it returned an error)
  putElement : F → List UInt8                -- fp.BigEndian.PutElement into a window of fp.Bytes bytes
  square : F → F
  mul : F → F → F
  add : F → F → F
  neg : F → F
  sqrt : F → Option F                        -- Sqrt (`none`: returned nil)
  lex : F → Bool                             -- LexicographicallyLargest
  bCurveCoeff : F
  bTwistCurveCoeff : F                       -- b of the twist (G2 text of bw6-633 / bw6-761)
  isInSubGroup : F → F → Bool                -- (*G1Affine).IsInSubGroup of the point (X, Y)

/-- component access of a tower coordinate (G2 over Fp² / Fp⁴): `z.<path>.SetBytesCanonical(bs)` = `sbc bs` then `setComp path z`;
`PutElement(w, z.<path>)` = `put (getComp path z)`; `Legendre`, and the `Sqrt` whose result the text does not inspect -/
structure Comps (F B : Type) where
  sbc : List UInt8 → Option B
  setComp : String → F → B → F
  getComp : String → F → B
  put : B → List UInt8
  legendre : F → Int
  sqrtU : F → F

/-- `s[i:j]` (bounds inside `len`: checked statically for arrays, guarded for slices) -/
def goSlice (l : List UInt8) (i j : Nat) : List UInt8 := (l.drop i).take (j - i)

/-- the destination after `copy(dst, src)` -/
def goCopy (dst src : List UInt8) : List UInt8 := src.take dst.length ++ dst.drop src.length

/-- write `bs` into the window starting at `i` -/
def goPutAt (l : List UInt8) (i : Nat) (bs : List UInt8) : List UInt8 := l.take i ++ bs ++ l.drop (i + bs.length)

end GV.PointCodecGo
