import GnarkVerif.Model.Util
import GnarkVerif.Model.Alg
import GnarkVerif.Model.PointOps
/-
C04 — executable model of the multi-exponentiation of gnark-crypto
(`ecc/<curve>/multiexp.go`, `multiexp_jacobian.go`, `multiexp_affine.go`, `internal/parallel/execute.go`).

Go code modelled (same for G1 and G2 and for the nine curve packages, which are instances of one template):
* `parallel.Execute`           → `executeRanges` (list of the `[start,end)` handed to the workers)
* `computeNbChunks`, `lastC`   → same names
* `partitionScalars`           → `mkSelector`/`window` (limb/mask/shift selection incl. the two-word case),
                                 `recode` (carry propagation, last window without borrow),
                                 `encodeDigit`/`encodeLast` (uint16 layout: value<<1, low bit = sign, negative d stored as −d−1),
                                 `scalarDigits`, chunk statistics `chunkOps`/`chunkNz`/`overweight`
* `processChunkG?Jacobian`     → `accumulate` + `reduceBuckets` (two running sums)
* `processChunkG?BatchAffine`  → state machine `BAState`, `baAdd`, `baAddFromQueue`, `baExecute`, `baFlush`, `baProcessTop`, `baStep`
* `_innerMsmG?`                → `innerMsm` (chunk processors chosen per chunk, overweight chunks split in two halves)
* `msmReduceChunkG?Affine`     → `reduceChunks` (Horner with `c` doublings)
* `MultiExp` (recursive split) → `bestC`, `costFunction`, `splitDecision`, `msmRec`, `multiExp`; `Fold` → `fold`

The group is a dictionary `GOps γ`; the theorems (Props/C04.lean) instantiate it with a Mathlib `AddCommGroup`,
the driver instantiates it with the group of exponents ℤ/r (points are known multiples `[a]G`).

NOT modelled: goroutines, channels and the token semaphore (every chunk processor is a pure function of its
slice of points/digits, results are combined in the fixed order of `msmReduceChunk`); the arrival order of
the two halves of a split chunk is a parameter; the choice "which processor / split or not" is a parameter
(`choose`) – the Go policy (`goChoose`) is one instance, float32 weights replaced by exact rationals;
`bestC` compares exact rationals instead of float64 quotients (identical below 2^36 points).
-/
namespace GV.MSM
open GV

/-! ## group dictionary -/

structure GOps (γ : Type) where
  zero : γ
  add : γ → γ → γ
  neg : γ → γ
  isZero : γ → Bool        -- `IsInfinity`
  sameX : γ → γ → Bool     -- `X.Equal`
  sameY : γ → γ → Bool     -- `Y.Equal` (consulted only after `sameX`)

/-- the group of exponents ℤ/r: the point `[a]G` is represented by `a` -/
def expOps (r : Nat) : GOps Nat where
  zero := 0
  add a b := (a + b) % r
  neg a := (r - a % r) % r
  isZero a := a % r == 0
  sameX a b := a % r == b % r || (a + b) % r == 0
  sameY a b := a % r == b % r

/-! ## `parallel.Execute` -/

/-- the `for i := 0; i < nbTasks; i++` loop; `t` iterations left -/
def execLoop (per : Nat) : Nat → Nat → Nat → Nat → List (Nat × Nat)
  | 0, _, _, _ => []
  | t+1, i, extra, off =>
    let s := i * per + off
    if extra > 0 then (s, s + per + 1) :: execLoop per t (i+1) (extra-1) (off+1)
    else (s, s + per) :: execLoop per t (i+1) extra off

/-- ranges given to `work` when `nbTasks` (already clamped) tasks are requested for `n` iterations -/
def executeCore (n k : Nat) : List (Nat × Nat) :=
  if k = 1 then [(0, n)]
  else
    let per0 := n / k
    let per := if per0 < 1 then 1 else per0
    let k := if per0 < 1 then n else k
    execLoop per k 0 (n - k * per) 0

/-- `Execute(n, work, maxCpus)`: clamp to 1..512 -/
def executeRanges (n : Nat) (maxCpus : Int) : List (Nat × Nat) :=
  executeCore n (if maxCpus < 1 then 1 else if maxCpus > 512 then 512 else maxCpus.toNat)

/-- `Execute(n, work)` without `maxCpus`: `runtime.NumCPU()` tasks -/
def executeRangesDefault (n numCPU : Nat) : List (Nat × Nat) := executeCore n numCPU

/-! ## window size bookkeeping -/

def computeNbChunks (bits c : Nat) : Nat := (bits + c - 1) / c

def lastC (bits c : Nat) : Nat := c + 1 - (computeNbChunks bits c * c - bits)

/-! ## `partitionScalars` -/

/-- `scalar[i]` of `Bits()` (regular form, little-endian 64-bit limbs) -/
def limbOf (s i : Nat) : Nat := (s >>> (64 * i)) % 2^64

structure Selector where
  index : Nat
  mask : Nat
  shift : Nat
  multiWordSelect : Bool
  maskHigh : Nat
  shiftHigh : Nat
deriving Repr, DecidableEq

def mkSelector (limbs c chunk : Nat) : Selector :=
  let jc := chunk * c
  let index := jc / 64
  let shift := jc - index * 64
  let mask := (((1 <<< c) - 1) <<< shift) % 2^64
  let multi := (64 % c != 0) && decide (shift > 64 - c) && decide (index < limbs - 1)
  if multi then
    let nbBitsHigh := shift - (64 - c)
    { index, mask, shift, multiWordSelect := true, maskHigh := (1 <<< nbBitsHigh) - 1, shiftHigh := c - nbBitsHigh }
  else
    { index, mask, shift, multiWordSelect := false, maskHigh := 0, shiftHigh := 0 }

/-- value of the c-bit window number `chunk`, computed from the limbs as the Go code does -/
def window (limbs c s chunk : Nat) : Nat :=
  let sel := mkSelector limbs c chunk
  let d := (limbOf s sel.index &&& sel.mask) >>> sel.shift
  if sel.multiWordSelect then d + ((limbOf s (sel.index + 1) &&& sel.maskHigh) <<< sel.shiftHigh) else d

/-- signed digits: `recode c w j k carry` handles chunks `j … j+k-1` with borrow, then the last chunk `j+k`
without borrow -/
def recode (c : Nat) (w : Nat → Nat) : Nat → Nat → Nat → List Int
  | j, 0, carry => [Int.ofNat (carry + w j)]
  | j, k+1, carry =>
    let d := carry + w j
    if d > 2^(c-1) - 1 then (Int.ofNat d - 2^c) :: recode c w (j+1) k 1
    else Int.ofNat d :: recode c w (j+1) k 0

/-- signed digits of a scalar (all zero for the zero scalar, which the Go code skips) -/
def signedDigits (limbs bits c s : Nat) : List Int :=
  let nb := computeNbChunks bits c
  if s = 0 then List.replicate nb 0 else recode c (window limbs c s) 0 (nb - 1) 0

def u16 (n : Nat) : Nat := n % 65536

/-- non-last chunks: `bits = uint16(digit)<<1` or `(uint16(-digit-1)<<1)+1` -/
def encodeDigit (d : Int) : Nat :=
  if d = 0 then 0
  else if d > 0 then u16 (u16 d.toNat <<< 1)
  else u16 (u16 (u16 (-d - 1).toNat <<< 1) + 1)

/-- last chunk: `uint16(digit) << 1` -/
def encodeLast (d : Int) : Nat := u16 (u16 d.toNat <<< 1)

def encodeAll : List Int → List Nat
  | [] => []
  | [d] => [encodeLast d]
  | d :: ds => encodeDigit d :: encodeAll ds

/-- how the chunk processors read a stored digit: 0 = skip, even = add to bucket `(u>>1)-1`, odd = subtract
from bucket `u>>1`; as a signed multiplier this is -/
def decodeDigit (u : Nat) : Int :=
  if u = 0 then 0 else if u % 2 = 0 then Int.ofNat (u / 2) else - (Int.ofNat (u / 2) + 1)

/-- the uint16 digits of one scalar, chunk 0 first -/
def scalarDigits (limbs bits c s : Nat) : List Nat := encodeAll (signedDigits limbs bits c s)

/-- `digits[chunk*n + i]`: the flat chunk-major array -/
def flatDigits (limbs bits c : Nat) (scalars : List Nat) : List Nat :=
  let rows := scalars.map (scalarDigits limbs bits c)
  ((List.range (computeNbChunks bits c)).map (fun j => rows.map (fun r => r.getD j 0))).flatten

/-- `digits[j*n:(j+1)*n]` -/
def chunkSlice (flat : List Nat) (n j : Nat) : List Nat := (flat.drop (j * n)).take n

/-- column `j` of the digit matrix (`rows[i]` = digits of scalar i) -/
def colOf (rows : List (List Nat)) (j : Nat) : List Nat := rows.map (fun r => r.getD j 0)

/-- digits of chunk `j` for all scalars -/
def digitCol (limbs bits c : Nat) (scalars : List Nat) (j : Nat) : List Nat :=
  colOf (scalars.map (scalarDigits limbs bits c)) j

/-- `partitionScalars` run by `Execute`: each worker fills the rows of its own range -/
def digitRowsPar (limbs bits c : Nat) (scalars : List Nat) (nbTasks : Int) : List (List Nat) :=
  (executeRanges scalars.length nbTasks).flatMap
    (fun se => (List.range' se.1 (se.2 - se.1)).map (fun i => scalarDigits limbs bits c (scalars.getD i 0)))

/-! ### chunk statistics (only computed for c ≥ 10) -/

def bucketOf (u : Nat) : Nat := if u % 2 = 0 then u / 2 - 1 else u / 2

def chunkOps (col : List Nat) : Nat := (col.filter (· != 0)).length

def chunkNz (col : List Nat) : Nat := ((col.filter (· != 0)).map bucketOf).eraseDups.length

/-- `weight ≥ 115` with `weight = ops·100 / (total/nbChunks)`, over ℚ (Go: float32) -/
def overweight (ops total nbChunks : Nat) : Bool := total != 0 && decide (ops * 100 * nbChunks ≥ 115 * total)

/-! ## Jacobian bucket processor -/

variable {γ : Type}

/-- one iteration of the accumulation loop of `processChunkG?Jacobian` -/
def bucketStep (ops : GOps γ) (buckets : List γ) (P : γ) (u : Nat) : List γ :=
  if u = 0 then buckets
  else if u % 2 = 0 then buckets.modify (u / 2 - 1) (fun b => ops.add b P)
  else buckets.modify (u / 2) (fun b => ops.add b (ops.neg P))

def accumulate (ops : GOps γ) (nbBuckets : Nat) (points : List γ) (digits : List Nat) : List γ :=
  (points.zip digits).foldl (fun B pu => bucketStep ops B pu.1 pu.2) (List.replicate nbBuckets ops.zero)

/-- `for k := len-1 … 0 { runningSum += buckets[k]; total += runningSum }` ; returns (runningSum, total) -/
def reduceAux (ops : GOps γ) (buckets : List γ) : γ × γ :=
  buckets.foldr (fun b rt => let run := ops.add rt.1 b; (run, ops.add rt.2 run)) (ops.zero, ops.zero)

def reduceBuckets (ops : GOps γ) (buckets : List γ) : γ := (reduceAux ops buckets).2

def processChunkJac (ops : GOps γ) (nbBuckets : Nat) (points : List γ) (digits : List Nat) : γ :=
  reduceBuckets ops (accumulate ops nbBuckets points digits)

/-! ## batch-affine bucket processor (state machine) -/

structure BAState (γ : Type) where
  buckets : List γ            -- affine buckets (`zero` = (0,0) = infinity)
  bucketsJE : List γ          -- extended-Jacobian overflow buckets
  pending : List (Nat × γ)    -- current batch: (bucket id = R[i], P[i]); `bucketIds` = the ids present; newest first
  queue : List (Nat × γ)      -- conflict queue, head = `queue[qID-1]`

def inPending (st : BAState γ) (id : Nat) : Bool := st.pending.any (fun p => p.1 == id)

/-- closure `add(bucketID, PP, isAdd)` -/
def baAdd (ops : GOps γ) (st : BAState γ) (id : Nat) (PP : γ) (isAdd : Bool) : BAState γ :=
  let B := st.buckets.getD id ops.zero
  if ops.isZero B then
    { st with buckets := st.buckets.set id (if isAdd then PP else ops.neg PP) }
  else if ops.sameX B PP then
    if ops.sameY B PP then
      if isAdd then { st with bucketsJE := st.bucketsJE.modify id (fun b => ops.add b PP) }
      else { st with buckets := st.buckets.set id ops.zero }
    else
      if isAdd then { st with buckets := st.buckets.set id ops.zero }
      else { st with bucketsJE := st.bucketsJE.modify id (fun b => ops.add b (ops.neg PP)) }
  else
    { st with pending := (id, if isAdd then PP else ops.neg PP) :: st.pending }

/-- closure `addFromQueue(op)` -/
def baAddFromQueue (ops : GOps γ) (st : BAState γ) (id : Nat) (Q : γ) : BAState γ :=
  let B := st.buckets.getD id ops.zero
  if ops.isZero B then { st with buckets := st.buckets.set id Q }
  else if ops.sameX B Q then
    if ops.sameY B Q then { st with bucketsJE := st.bucketsJE.modify id (fun b => ops.add b Q) }
    else { st with buckets := st.buckets.set id ops.zero }
  else { st with pending := (id, Q) :: st.pending }

/-- `executeAndReset`: `batchAddG?Affine` performs `*R[i] += P[i]` for the whole batch -/
def baExecute (ops : GOps γ) (st : BAState γ) : BAState γ :=
  { st with
    buckets := st.pending.foldr (fun p bs => bs.modify p.1 (fun b => ops.add b p.2)) st.buckets,
    pending := [] }

/-- `flushQueue` -/
def baFlush (ops : GOps γ) (st : BAState γ) : BAState γ :=
  { st with
    bucketsJE := st.queue.foldr (fun p bs => bs.modify p.1 (fun b => ops.add b p.2)) st.bucketsJE,
    queue := [] }

/-- `processTopQueue`; `q` is the part of the queue not yet looked at -/
def baProcessTop (ops : GOps γ) : BAState γ → List (Nat × γ) → BAState γ
  | st, [] => { st with queue := [] }
  | st, (id, Q) :: rest =>
    if inPending st id then { st with queue := (id, Q) :: rest }
    else baProcessTop ops (baAddFromQueue ops st id Q) rest

/-- the digit hits a bucket of the current batch: push on the queue, flush the queue when it is full -/
def baConflict (ops : GOps γ) (batchSize : Nat) (st : BAState γ) (id : Nat) (Q : γ) : BAState γ :=
  let st' := { st with queue := (id, Q) :: st.queue }
  if st'.queue.length = batchSize - 1 then baFlush ops st' else st'

/-- `add(...)`, then `if isFull() { executeAndReset(); processTopQueue() }` -/
def baAddAndRun (ops : GOps γ) (batchSize : Nat) (st : BAState γ) (id : Nat) (P : γ) (isAdd : Bool) : BAState γ :=
  let st' := baAdd ops st id P isAdd
  if st'.pending.length = batchSize then
    let st'' := baExecute ops st'
    baProcessTop ops st'' st''.queue
  else st'

/-- one iteration of the main loop -/
def baStep (ops : GOps γ) (batchSize : Nat) (st : BAState γ) (P : γ) (u : Nat) : BAState γ :=
  if u = 0 || ops.isZero P then st
  else
    let isAdd := u % 2 == 0
    let id := bucketOf u
    if inPending st id then baConflict ops batchSize st id (if isAdd then P else ops.neg P)
    else baAddAndRun ops batchSize st id P isAdd

def baInit (ops : GOps γ) (nbBuckets : Nat) : BAState γ :=
  { buckets := List.replicate nbBuckets ops.zero, bucketsJE := List.replicate nbBuckets ops.zero,
    pending := [], queue := [] }

def baRun (ops : GOps γ) (batchSize nbBuckets : Nat) (points : List γ) (digits : List Nat) : BAState γ :=
  (points.zip digits).foldl (fun st pu => baStep ops batchSize st pu.1 pu.2) (baInit ops nbBuckets)

/-- final reduction of the two bucket sets -/
def reduceAux2 (ops : GOps γ) (bs je : List γ) : γ × γ :=
  (bs.zip je).foldr (fun b rt => let run := ops.add (ops.add rt.1 b.1) b.2; (run, ops.add rt.2 run)) (ops.zero, ops.zero)

def processChunkBatchAffine (ops : GOps γ) (batchSize nbBuckets : Nat) (points : List γ) (digits : List Nat) : γ :=
  let st := baFlush ops (baExecute ops (baRun ops batchSize nbBuckets points digits))
  (reduceAux2 ops st.buckets st.bucketsJE).2

/-! ## `_innerMsm` and the Horner reduction -/

inductive Proc
  | jacobian
  | batchAffine (batchSize : Nat)
deriving Repr, DecidableEq

structure ChunkChoice where
  proc : Proc := .jacobian
  /-- `none`: one goroutine; `some b`: overweight chunk split in two halves, `b` = the second half is received first -/
  split : Option Bool := none
deriving Repr, DecidableEq

def processChunk (ops : GOps γ) (proc : Proc) (nbBuckets : Nat) (points : List γ) (digits : List Nat) : γ :=
  match proc with
  | .jacobian => processChunkJac ops nbBuckets points digits
  | .batchAffine bs => processChunkBatchAffine ops bs nbBuckets points digits

def chunkTotal (ops : GOps γ) (ch : ChunkChoice) (nbBuckets : Nat) (points : List γ) (digits : List Nat) : γ :=
  match ch.split with
  | none => processChunk ops ch.proc nbBuckets points digits
  | some swap =>
    let h := points.length / 2
    let s1 := processChunk ops ch.proc nbBuckets (points.take h) (digits.take h)
    let s2 := processChunk ops ch.proc nbBuckets (points.drop h) (digits.drop h)
    if swap then ops.add s2 s1 else ops.add s1 s2

def dblN (ops : GOps γ) : Nat → γ → γ
  | 0, x => x
  | k+1, x => dblN ops k (ops.add x x)

/-- `msmReduceChunk`: chunk totals, least significant first -/
def reduceChunks (ops : GOps γ) (c : Nat) : List γ → γ
  | [] => ops.zero
  | [t] => t
  | t :: rest => ops.add (dblN ops c (reduceChunks ops c rest)) t

structure Cfg where
  limbs : Nat
  bits : Nat
  cs : List Nat            -- `implementedCs`
  procCases : List Nat     -- the `case` labels of `getChunkProcessor`
  batchCases : List (Nat × Nat)   -- labels with a batch-affine branch and their batchSize
  defaultCase : Nat        -- window of the `default:` branch
  numCPU : Nat := 1
deriving Repr

/-- size of the bucket array of `getChunkProcessor(cc, _)` -/
def nbBucketsFor (cfg : Cfg) (cc : Nat) : Nat :=
  if cfg.procCases.contains cc then 2^(cc-1) else 2^(cfg.defaultCase-1)

def innerMsm (cfg : Cfg) (ops : GOps γ) (c : Nat) (choose : Nat → List (List Nat) → ChunkChoice)
    (points : List γ) (scalars : List Nat) : γ :=
  let nb := computeNbChunks cfg.bits c
  let rows := scalars.map (scalarDigits cfg.limbs cfg.bits c)
  let cols := (List.range nb).map (colOf rows)
  let totals := (List.range nb).map (fun j =>
    let cc := if j = nb - 1 then lastC cfg.bits c else c
    chunkTotal ops (choose j cols) (nbBucketsFor cfg cc) points (colOf rows j))
  reduceChunks ops c totals

/-- the policy of the Go code: statistics → processor and overweight split -/
def goChoose (cfg : Cfg) (c : Nat) (j : Nat) (cols : List (List Nat)) : ChunkChoice :=
  if c ≤ 9 then {}
  else
    let nb := cols.length
    let col := cols.getD j []
    let total := (cols.map chunkOps).foldl (· + ·) 0
    let cc := if j = nb - 1 then lastC cfg.bits c else c
    let proc := match cfg.batchCases.lookup cc with
      | some bs => if chunkNz col < bs then Proc.jacobian else Proc.batchAffine bs
      | none => Proc.jacobian
    { proc, split := if overweight (chunkOps col) total nb then some false else none }

/-! ## `MultiExp` -/

/-- first minimiser of `(bits+1)(n+2^c)/c` over `implementedCs` -/
def bestC (cfg : Cfg) (n : Nat) : Nat :=
  let cost (c : Nat) := (cfg.bits + 1) * (n + 2^c)
  ((cfg.cs.foldl (fun (best : Option (Nat × Nat)) c =>
      match best with
      | none => some (c, cost c)
      | some (bc, bcost) => if cost c * bc < bcost * c then some (c, cost c) else best) none).map (·.1)).getD 0

/-- the `for nbTasks >= nbCpus` loop of `costFunction` (fuel = initial nbTasks suffices for nbCpus ≥ 1) -/
def costLoop (cpus cpt : Nat) : Nat → Nat → Nat → Nat
  | 0, t, tot => if t > 0 then tot + cpt else tot
  | f+1, t, tot => if t ≥ cpus then costLoop cpus cpt f (t - cpus) (tot + cpt) else (if t > 0 then tot + cpt else tot)

def costFunction (nbTasks nbCpus costPerTask : Nat) : Nat := costLoop nbCpus costPerTask nbTasks nbTasks nbTasks

def splitDecision (cfg : Cfg) (n k : Nat) : Bool :=
  let C := bestC cfg n
  let pre := costFunction (computeNbChunks cfg.bits C) k (n + 2^C)
  let C2 := bestC cfg (n / 2)
  let post := costFunction (computeNbChunks cfg.bits C2 * 2) k (n / 2 + 2^C2)
  post < pre

/-- recursive halving; `path` identifies the call in the recursion tree; `none` = fuel exhausted -/
def msmRec (cfg : Cfg) (ops : GOps γ) (choose : List Bool → Nat → Nat → List (List Nat) → ChunkChoice) :
    Nat → List Bool → Nat → List γ → List Nat → Option γ
  | 0, _, _, _, _ => none
  | fuel+1, path, k, pts, scs =>
    let n := pts.length
    if splitDecision cfg n k then
      let k' := (k + 1) / 2
      match msmRec cfg ops choose fuel (false :: path) k' (pts.take (n/2)) (scs.take (n/2)),
            msmRec cfg ops choose fuel (true :: path) k' (pts.drop (n/2)) (scs.drop (n/2)) with
      | some a, some b => some (ops.add b a)
      | _, _ => none
    else
      let c := bestC cfg n
      some (innerMsm cfg ops c (choose path c) pts scs)

inductive Err | len | nbTasks
deriving Repr, DecidableEq

def multiExp (cfg : Cfg) (ops : GOps γ) (choose : List Bool → Nat → Nat → List (List Nat) → ChunkChoice)
    (nbTasks : Int) (points : List γ) (scalars : List Nat) : Except Err (Option γ) :=
  if points.length ≠ scalars.length then .error .len
  else if nbTasks > 1024 then .error .nbTasks
  else
    let k := if nbTasks ≤ 0 then cfg.numCPU * 2 else nbTasks.toNat
    .ok (msmRec cfg ops choose (points.length + 1) [] k points scalars)

/-- scalars of `Fold`: 1, t, t², … (mod r) -/
def foldScalars (r t : Nat) : Nat → Nat → List Nat
  | 0, _ => []
  | n+1, acc => acc :: foldScalars r t n (acc * t % r)

def fold (cfg : Cfg) (ops : GOps γ) (choose : List Bool → Nat → Nat → List (List Nat) → ChunkChoice)
    (r : Nat) (nbTasks : Int) (points : List γ) (t : Nat) : Except Err (Option γ) :=
  multiExp cfg ops choose nbTasks points (foldScalars r t points.length (1 % r))

/-! ## per-curve constants of the generated code (`fr.Bits`, `fr.Limbs`, `implementedCs`, switch labels) -/

def batchTable : List (Nat × Nat) := [(10,80),(11,150),(12,200),(13,350),(14,400),(15,500),(16,640)]

def mkCfg (bits : Nat) (cs cases : List Nat) (dflt : Nat) : Cfg :=
  { limbs := (bits + 63) / 64, bits, cs, procCases := cases,
    batchCases := batchTable.filter (fun p => cs.contains p.1), defaultCase := dflt }

def range' (a b : Nat) : List Nat := List.range' a (b + 1 - a)

def curveCfgs : List (String × Cfg) := [
  ("bn254",     mkCfg 254 (range' 4 16) (range' 2 16) 16),
  ("bls12-377", mkCfg 253 (range' 4 16) (2 :: range' 4 16) 16),
  ("bls12-381", mkCfg 255 (range' 4 16) (range' 3 16) 16),
  ("bls24-315", mkCfg 253 (range' 4 16) (2 :: range' 4 16) 16),
  ("bls24-317", mkCfg 255 (range' 4 16) (range' 3 16) 16),
  ("bw6-633",   mkCfg 315 [4,5,6,8,12,16] [4,5,6,8,12,16] 16),
  ("bw6-761",   mkCfg 377 [4,5,8,10,16] [2,3,4,5,8,10,16] 16),
  ("grumpkin",  mkCfg 254 (range' 4 16) (range' 2 16) 16),
  ("secp256k1", mkCfg 256 (range' 4 15) (range' 2 15) 15)]

/-! ## driver: expected value "in the exponent" -/

/-- splitmix64, identical to `tools/harness/c04.go` -/
def smNext (s : UInt64) : UInt64 × UInt64 :=
  let s := s + 0x9E3779B97F4A7C15
  let z := s
  let z := (z ^^^ (z >>> 30)) * 0xBF58476D1CE4E5B9
  let z := (z ^^^ (z >>> 27)) * 0x94D049BB133111EB
  (s, z ^^^ (z >>> 31))

def nextFr (limbs r : Nat) (s : UInt64) : UInt64 × Nat := Id.run do
  let mut st := s
  let mut v : Nat := 0
  for _ in [0:limbs] do
    let (s', o) := smNext st
    st := s'
    v := v * 2^64 + o.toNat
  return (st, v % r)

/-- base vectors a_i, s_i -/
def baseVectors (limbs r : Nat) (seed : UInt64) (n : Nat) : Array Nat × Array Nat := Id.run do
  let mut st := seed
  let mut A : Array Nat := Array.mkEmpty n
  let mut S : Array Nat := Array.mkEmpty n
  for _ in [0:n] do
    let (s1, a) := nextFr limbs r st
    let (s2, s) := nextFr limbs r s1
    st := s2
    A := A.push a
    S := S.push s
  -- from 2048 points on the base exponents are the arithmetic progression A[0] + i·A[1] (cheap reference points in Go)
  if n ≥ 2048 then
    let a0 := A.getD 0 0
    let d := A.getD 1 0
    A := (Array.range n).map (fun i => (a0 + i * d) % r)
  return (A, S)

/-- the multiset shapes (same table in c04.go) -/
def shapeVectorsBase (limbs bits r : Nat) (shape : Nat) (A S : Array Nat) : Array Nat × Array Nat :=
  let n := A.size
  let a (i : Nat) := A.getD i 0
  let s (i : Nat) := S.getD i 0
  let mk (f : Nat → Nat) : Array Nat := (Array.range n).map f
  match shape with
  | 1 => (mk (fun _ => a 0), S)                                           -- one point repeated
  | 2 => (mk (fun i => if i % 2 = 1 then (r - a (i-1)) % r else a i),      -- P, −P pairs; every other pair cancels
          mk (fun i => if i % 4 = 1 then s (i-1) else s i))
  | 3 => (mk (fun i => if i % 3 = 0 then 0 else a i), S)                   -- points at infinity
  | 4 => (A, mk (fun i => if i % 2 = 0 then 0 else s i))                   -- zero scalars
  | 5 => (A, mk (fun _ => 0))                                              -- all scalars zero
  | 6 => (A, mk (fun _ => r - 1))                                          -- r−1
  | 7 => (A, mk (fun i => let v := 2^(64 * (1 + i % limbs)) - 1            -- saturated limbs / values just below r
                          if v < r then v else (r - 1 - i % r) % r))
  | 8 => (A, mk (fun i => s i % 65536))                                    -- only the low chunks are hit
  | 9 => (A, mk (fun _ => s 0))                                            -- all digits equal
  | 10 => (A, mk (fun i => s ((i / 4) % 1024)))                            -- runs of equal scalars
  | 11 => (mk (fun i => if i % 4 < 2 then a (i / 4 * 4) else (r - a (i / 4 * 4)) % r),   -- P,P,−P,−P with equal scalars
           mk (fun i => s ((i / 4) % 1024)))
  | 12 => (A, mk (fun i => s i / 2^(bits - 14) * 2^(bits - 14)))           -- only the top chunk is hit
  | 13 => (mk (fun i => a (i % 2)), mk (fun i => s (i % 3)))               -- tiny pools
  | 14 => (A, mk (fun i => r - (1 + i % 7)))                               -- small negatives r−1 … r−7
  -- cancellation classes: the exact sum is the point at infinity, the partial sums are not
  | 15 => (mk (fun i => a (i / 2 * 2)),                                    -- [P, P] with [s, −s] (odd n: last scalar 0)
           mk (fun i => if i % 2 = 1 then (r - s (i-1)) % r else if i + 1 = n then 0 else s i))
  | 16 => let h := n / 2                                                   -- second half = −(first half), same scalars
          (mk (fun i => if i < h then a i else if i < 2 * h then (r - a (i - h)) % r else a i),
           mk (fun i => if i < h then s i else if i < 2 * h then s (i - h) else 0))
  | 17 => let ti := powMod (s 0) (r - 2) r                                 -- [P, −P/t]: Fold with t = s₀ sums to infinity
          (mk (fun i => if i % 2 = 1 then (r - a (i-1) * ti % r) % r else if i + 1 = n then 0 else a i), S)
  | _ =>
    -- parametrised scalar shapes `kind·0x1000 + k` (which windows are hit → chunk statistics)
    let k := shape % 4096
    match shape / 4096 with
    | 1 => (A, mk (fun i => s i % 2^k))                                    -- k-bit scalars
    | 2 => (A, mk (fun i => r - 1 - s i % 2^k))                            -- r−1−(k-bit value)
    | 3 => (A, mk (fun i => s i / 2^k * 2^k))                              -- low k bits cleared
    | 4 => (A, mk (fun i => s i / 2^k % 65536 * 2^k))                      -- 16-bit band at bit k
    | _ => (A, S)

/-- last index whose point is not the point at infinity -/
def lastNonzero (r : Nat) (A : Array Nat) : Option Nat :=
  (List.range A.size).foldl (fun acc i => if A.getD i 0 % r != 0 then some i else acc) none

/-- shapes `0x5000 + b`: shape `b`, then the scalar of the last finite point is replaced by the value that makes the
exact sum the point at infinity (a cancellation in the very last addition of the reduction, whatever `n` and `c`) -/
def shapeVectors (limbs bits r : Nat) (shape : Nat) (A S : Array Nat) : Array Nat × Array Nat :=
  if shape / 4096 = 5 then
    let (A', S') := shapeVectorsBase limbs bits r (shape % 4096) A S
    match lastNonzero r A' with
    | none => (A', S')
    | some f =>
      let S0 := S'.setIfInBounds f 0
      let e := Id.run do
        let mut e := 0
        for i in [0:A'.size] do
          e := (e + A'.getD i 0 * S0.getD i 0) % r
        return e
      (A', S'.setIfInBounds f ((r - e) % r * powMod (A'.getD f 0) (r - 2) r % r))
  else shapeVectorsBase limbs bits r shape A S

structure Line where
  cfg : Cfg
  r : Nat
  api : String
  A : Array Nat
  S : Array Nat
  nbTasks : Int
  nScalars : Nat

def sumProd (r : Nat) (A S : Array Nat) : Nat := Id.run do
  let mut e := 0
  for i in [0:A.size] do
    e := (e + A.getD i 0 * S.getD i 0) % r
  return e

/-- the exponent of the expected result, or an error class -/
def expectedExp (L : Line) : Except String Nat :=
  let n := L.A.size
  if L.api == "fold" || L.api == "foldjac" then
    if L.nbTasks > 1024 then .error "err:nbtasks"
    else
      let t := L.S.getD 0 0
      .ok (sumProd L.r L.A ((foldScalars L.r t n (1 % L.r)).toArray))
  else if n ≠ L.nScalars then .error "err:len"
  else if L.nbTasks > 1024 then .error "err:nbtasks"
  else .ok (sumProd L.r L.A L.S)

/-- run the executable model in the exponent group (Go's window and policy, then every other window as a
cross-check when the instance is small); returns the list of disagreeing configurations -/
def modelCheck (L : Line) (numCPU : Nat) (e : Nat) : List String :=
  let n := L.A.size
  let ops := expOps L.r
  let cfg := { L.cfg with numCPU }
  let pts := L.A.toList
  let scs := if L.api == "fold" || L.api == "foldjac" then foldScalars L.r (L.S.getD 0 0) n (1 % L.r) else L.S.toList
  let viaRec :=
    if n ≤ 600 then
      match multiExp cfg ops (fun _ c => goChoose cfg c) L.nbTasks pts scs with
      | .ok (some v) => if v % L.r == e then [] else ["rec"]
      | _ => ["rec-none"]
    else []
  let viaC :=
    if n ≤ 12 then
      ((cfg.cs.filter (fun c => (c + L.S.getD 0 0 + n) % 4 == 0)).filter (fun c =>
        let alt : Nat → List (List Nat) → ChunkChoice := fun j _ =>
          { proc := if j % 2 = 0 then .jacobian else .batchAffine 3, split := if j % 3 = 0 then some (j % 2 = 0) else none }
        innerMsm cfg ops c alt pts scs % L.r != e)).map (fun c => s!"c{c}")
    else []
  viaRec ++ viaC

section towers
open GV.Alg

def parseList (s : String) : List Nat := (s.splitOn ",").map parseHexD

def showRes {α : Type} (E : Curve α) (G : Pt α) (e : Nat) : String :=
  if !E.onCurve G then "bad-generator" else E.showPt (E.smul (Int.ofNat e) G)

/-- tower descriptor `1` | `2:β` | `4:β:γ0,γ1`; elements are comma separated hex lists.
The base field is `PointOps.fpE` (= `Alg.fp` with the inverse computed by the extended Euclidean algorithm instead of
`a^(q-2)`, the dictionary of the C02 specification): same textbook group law, ~10× cheaper per line. -/
def pointResult (tower p a b gx gy : String) (e : Nat) : String :=
  let q := parseHexD p
  let fp := GV.PointOps.fpE
  match tower.splitOn ":" with
  | ["1"] =>
    let E : Curve Nat := { F := fp q, a := parseHexD a, b := parseHexD b }
    showRes E (some (parseHexD gx, parseHexD gy)) e
  | ["2", β] =>
    let F2 := quad (fp q) (parseHexD β)
    let el (s : String) : Nat × Nat := match parseList s with | [x, y] => (x, y) | _ => (0, 0)
    let E : Curve (Nat × Nat) := { F := F2, a := el a, b := el b }
    showRes E (some (el gx, el gy)) e
  | ["4", β, γ] =>
    let F2 := quad (fp q) (parseHexD β)
    let el2 (s : String) : Nat × Nat := match parseList s with | [x, y] => (x, y) | _ => (0, 0)
    let F4 := quad F2 (el2 γ)
    let el (s : String) : (Nat × Nat) × (Nat × Nat) :=
      match parseList s with | [x, y, z, w] => ((x, y), (z, w)) | _ => ((0, 0), (0, 0))
    let E : Curve ((Nat × Nat) × (Nat × Nat)) := { F := F4, a := el a, b := el b }
    showRes E (some (el gx, el gy)) e
  | _ => "bad-op"

end towers

/-! ### `MSMX`: explicit window values (digit programs)

`prog` = comma separated items `<body>[~][#j][@m][*k]`: body = window value `w` or sweep `lo:hi` (inclusive, descending when
lo > hi), `~` = the signed digit is `−w` (scalar `2^(c·whi) − w·Σ 2^(c·k)`, with `#j`: `2^(c·(j+1)) − w·2^(c·j)`),
`#j` = only window j carries the value (default: every window of `[wlo, whi)`), `@m` = the point is `[m·a₀]G`
(m signed; default: the pairwise distinct point `[a₀ + i·d]G`, i = position), `^k` = the point is `−[a₀ + (i−k)·d]G` (the
opposite of the point k positions earlier), `*k` = the item k times. `tail` = 1 repeats the program cyclically up to n
entries, 0 leaves the other scalars zero. Entries with value 0 and the entries of the tail have the point G, scalar 0. -/

structure XEntry where
  w : Nat
  win : Option Nat
  m : Option Int
  back : Option Nat
  neg : Bool := false
deriving Repr

def splitSuffix (s : String) (ch : Char) : String × Option String :=
  match s.splitOn (String.singleton ch) with
  | [b, x] => (b, some x)
  | _ => (s, none)

def parseItem (it : String) : List XEntry :=
  let (it, k) := splitSuffix it '*'
  let (it, bk) := splitSuffix it '^'
  let (it, m) := splitSuffix it '@'
  let (body, j) := splitSuffix it '#'
  let neg := body.endsWith "~"
  let body := if neg then (body.dropEnd 1).toString else body
  let ws : List Nat := match body.splitOn ":" with
    | [lo, hi] =>
      let lo := parseHexD lo
      let hi := parseHexD hi
      if lo ≤ hi then List.range' lo (hi + 1 - lo) else (List.range' hi (lo + 1 - hi)).reverse
    | _ => [parseHexD body]
  let es := ws.map (fun w => ({ w, win := j.map parseHexD, m := m.map parseInt, back := bk.map parseHexD, neg } : XEntry))
  (List.replicate ((k.map parseHexD).getD 1) es).flatten

def parseProg (s : String) : Array XEntry :=
  if s == "-" then #[] else ((s.splitOn ",").flatMap parseItem).toArray

/-- Σ_{k ∈ [lo,hi)} 2^(c·k) -/
def repUnit (c lo hi : Nat) : Nat := (List.range' lo (hi - lo)).foldl (fun acc k => acc + 2^(c*k)) 0

def xVectors (r a0 d n c tail wlo whi : Nat) (E : Array XEntry) : Array Nat × Array Nat :=
  let L := E.size
  let rep := repUnit c wlo whi
  let ent (i : Nat) : Option XEntry := if L = 0 then none else if tail = 1 then E[i % L]? else E[i]?
  let A := (Array.range n).map (fun i => match ent i with
    | none => 1 % r
    | some e =>
      if e.w = 0 then 1 % r else
      match e.m, e.back with
      | some m, _ => ((m * Int.ofNat a0) % Int.ofNat r).toNat
      | none, some k => (r - (a0 + (i - k) * d) % r) % r
      | none, none => (a0 + i * d) % r)
  let S := (Array.range n).map (fun i => match ent i with
    | none => 0
    | some e =>
      let (v, top) := match e.win with
        | none => (e.w * rep, whi)
        | some j => (e.w * 2^(c*j), j + 1)
      if e.neg then ((Int.ofNat (2^(c*top)) - Int.ofNat v) % Int.ofNat r).toNat else v % r)
  (A, S)

/-- `MSMX … inner` lines up to this size / window also run the executable model of `_innerMsm` -/
def innerCheckMaxN : Nat := 700
def innerCheckMaxC : Nat := 10

def showRanges (l : List (Nat × Nat)) : String :=
  if l.isEmpty then "-" else " ".intercalate (l.map (fun se => toHex se.1 ++ "," ++ toHex se.2))

def showDigits (l : List Nat) : String :=
  if l.isEmpty then "-" else ",".intercalate (l.map toHex)

/-- `MSM <curve> <g1|g2> <aff|jac|fold> <tower> <p> <a> <b> <r> <Gx> <Gy> <seed> <n> <shape> <nbTasks> <gomaxprocs> <nScalars> <numCPU>` -/
def handle (args : List String) : String :=
  match args with
  | ["MSM", curve, _grp, api, tower, p, a, b, r, gx, gy, seed, n, shape, nbTasks, _gmp, nScalars, numCPU] =>
    match curveCfgs.lookup curve with
    | none => "bad-op"
    | some cfg =>
      let r := parseHexD r
      let n := parseHexD n
      if r < 2 then "bad-op" else
      let (A0, S0) := baseVectors cfg.limbs r (UInt64.ofNat (parseHexD seed)) n
      let (A, S) := shapeVectors cfg.limbs cfg.bits r (parseHexD shape) A0 S0
      let L : Line := { cfg, r, api, A, S, nbTasks := parseInt nbTasks, nScalars := parseHexD nScalars }
      match expectedExp L with
      | .error e => e
      | .ok e =>
        match modelCheck L (parseHexD numCPU) e with
        | [] => pointResult tower p a b gx gy e
        | bad => "model-mismatch:" ++ ",".intercalate bad
  | ["MSMX", curve, _grp, api, tower, p, a, b, r, gx, gy, seed, n, c, nbTasks, _gmp, numCPU, tail, wlo, whi, prog] =>
    match curveCfgs.lookup curve with
    | none => "bad-op"
    | some cfg =>
      let r := parseHexD r
      let n := parseHexD n
      if r < 2 || !(api == "aff" || api == "jac" || api == "inner") then "bad-op" else
      let (st, a0) := nextFr cfg.limbs r (UInt64.ofNat (parseHexD seed))
      let (_, d) := nextFr cfg.limbs r st
      let (A, S) := xVectors r a0 d n (parseHexD c) (parseHexD tail) (parseHexD wlo) (parseHexD whi) (parseProg prog)
      if api == "inner" then
        -- `_innerMsmG1/G2` run with the window of the line (overlay shim): the exact sum; on the small instances the
        -- executable model of `_innerMsm` (Go's choice of the chunk processors) is run on the same input as a cross-check
        let c := parseHexD c
        let e := sumProd r A S
        if parseInt nbTasks < 1 || !cfg.cs.contains c then "bad-op"
        else if n ≤ innerCheckMaxN && c ≤ innerCheckMaxC &&
            innerMsm { cfg with numCPU := parseHexD numCPU } (expOps r) c (goChoose cfg c) A.toList S.toList % r != e then
          "model-mismatch:inner"
        else pointResult tower p a b gx gy e
      else
      let L : Line := { cfg, r, api, A, S, nbTasks := parseInt nbTasks, nScalars := n }
      match expectedExp L with
      | .error e => e
      | .ok e =>
        match modelCheck L (parseHexD numCPU) e with
        | [] => pointResult tower p a b gx gy e
        | bad => "model-mismatch:" ++ ",".intercalate bad
  | ["BSM", curve, _grp, tower, p, a, b, r, gx, gy, seed, n, shape] =>
    -- BatchScalarMultiplication checked through Σ w_i·([s_i]G) with 16-bit weights w_i
    match curveCfgs.lookup curve with
    | none => "bad-op"
    | some cfg =>
      let r := parseHexD r
      if r < 2 then "bad-op" else
      let (A0, S0) := baseVectors cfg.limbs r (UInt64.ofNat (parseHexD seed)) (parseHexD n)
      let (W, S) := shapeVectors cfg.limbs cfg.bits r (parseHexD shape) A0 S0
      pointResult tower p a b gx gy (sumProd r (W.map (· % 65536)) S)
  | "EXEC" :: [n, k] => showRanges (executeRanges (parseHexD n) (parseInt k))
  | "EXECD" :: [n, numCPU] => showRanges (executeRangesDefault (parseHexD n) (parseHexD numCPU))
  | "PART" :: [curve, c, s] =>
    match curveCfgs.lookup curve with
    | none => "bad-op"
    | some cfg => showDigits (scalarDigits cfg.limbs cfg.bits (parseHexD c) (parseHexD s))
  | "PARTN" :: [curve, r, c, _nbTasks, seed, n] =>
    match curveCfgs.lookup curve with
    | none => "bad-op"
    | some cfg =>
      let r := parseHexD r
      if r < 2 then "bad-op" else
      let (_, S) := baseVectors cfg.limbs r (UInt64.ofNat (parseHexD seed)) (parseHexD n)
      showDigits (flatDigits cfg.limbs cfg.bits (parseHexD c) S.toList)
  | _ => "bad-op"

end GV.MSM
