/-
Deep embedding of the fixed-exponent ADDITION CHAINS of gnark-crypto (core-only; the data in `Gen/Chains/*.lean`
is regenerated from the Go text by tools/goslp/chains.go on every run):

* field level  : `expBySqrtExp`, `expByLegendreExp` of every `element_exp.go`            (C01)
* tower level  : `Expt`, `ExptHalf`, `ExptMinus1`, ... of `e12_pairing.go`, `e24_pairing.go`, `e6_pairing.go` (C06)
* curve level  : `mulBySeed` of `g1.go` / `g2.go` (additive chains)                     (C02/C03)

A chain is a list of register-machine steps. Register 0 holds the argument `x`; every other register is a Go local
(or the receiver) and must be written before it is read. The same program has two readings:

* `eval o c x`     – run it on a carrier `T` with the operations `o` (multiplication, squaring, inverse = Conjugate / Neg,
                     Karabina compressed squaring, decompression);
* `sym D c`        – run it on EXPONENTS (`+` for a product, doubling for a squaring, negation for the inverse, start at 1);
                     `none` when the chain is ill-formed (a register read before it is written, a destination out of range,
                     a compressed value used where a full one is needed, an inverse where the domain has none).

`Proofs/Chain.lean` proves once that the two agree (`eval o c x` "is" `x ^ sym D c`) for every chain.
-/
namespace GV.Chain

inductive Step where
  /-- `r[d] := r[a] * r[b]`  (Go: `d.Mul(a, b)`; additive: `d.AddAssign(b)` with `a = d`) -/
  | mul (d a b : Nat)
  /-- `r[d] := r[a]^(2^n)`: `n` squarings, the first one reads `a` (Go: `d.Square(a)`, a literal-bound loop of
  `d.Square(d)`, `CyclotomicSquare`, `nSquare(n)`, `Double`, `DoubleAssign`) -/
  | sq (d a n : Nat)
  /-- `r[d] := r[a]⁻¹` (Go: `Conjugate` on the cyclotomic subgroup, `Neg` on a curve) -/
  | inv (d a : Nat)
  /-- `r[d] := r[a]` (Go: `Set`) -/
  | set (d a : Nat)
  /-- `n` Karabina compressed squarings (Go: `d.nSquareCompressed(n)`, `a = d`); the result is in compressed form -/
  | sqc (d a n : Nat)
  /-- `DecompressKarabina` / one slot of `BatchDecompressKarabina` -/
  | dec (d a : Nat)
deriving DecidableEq, Repr

structure Chain where
  /-- number of registers (register 0 = the argument) -/
  nregs : Nat
  /-- register that holds the result (`return z`) -/
  out : Nat
  steps : List Step
deriving Repr

def Step.dst : Step → Nat
  | .mul d _ _ => d
  | .sq d _ _ => d
  | .inv d _ => d
  | .set d _ => d
  | .sqc d _ _ => d
  | .dec d _ => d

/-- `f` applied `n` times -/
def iter {T : Type} (f : T → T) : Nat → T → T
  | 0, a => a
  | n+1, a => iter f n (f a)

/-! ## concrete reading -/

structure Ops (T : Type) where
  mul : T → T → T
  sq : T → T
  inv : T → T
  sqc : T → T
  dec : T → T

/-- the value a step writes (`x` = default for an out-of-range read; never used by a chain that `sym` accepts) -/
def Step.val {T : Type} (o : Ops T) (x : T) (rf : List T) : Step → T
  | .mul _ a b => o.mul (rf.getD a x) (rf.getD b x)
  | .sq _ a n => iter o.sq n (rf.getD a x)
  | .inv _ a => o.inv (rf.getD a x)
  | .set _ a => rf.getD a x
  | .sqc _ a n => iter o.sqc n (rf.getD a x)
  | .dec _ a => o.dec (rf.getD a x)

def step {T : Type} (o : Ops T) (x : T) (rf : List T) (s : Step) : List T := rf.set s.dst (s.val o x rf)

def run {T : Type} (o : Ops T) (x : T) : List Step → List T → List T
  | [], rf => rf
  | s :: ss, rf => run o x ss (step o x rf s)

/-- run the chain on `x` -/
def eval {T : Type} (o : Ops T) (c : Chain) (x : T) : T :=
  (run o x c.steps (List.replicate c.nregs x)).getD c.out x

/-! ## exponent reading -/

/-- an exponent domain: `ℕ` (no inverse) or `ℤ` -/
structure Dom (E : Type) where
  one : E
  add : E → E → E
  dbl : E → E
  neg : Option (E → E)

/-- symbolic register: `none` = not written yet; `(false, e)` = holds `x^e`; `(true, e)` = holds the Karabina-compressed form of `x^e` -/
abbrev SReg (E : Type) := Option (Bool × E)

def Step.sval {E : Type} (D : Dom E) (rf : List (SReg E)) : Step → SReg E
  | .mul _ a b =>
    match rf.getD a none, rf.getD b none with
    | some (false, e), some (false, f) => some (false, D.add e f)
    | _, _ => none
  | .sq _ a n =>
    match rf.getD a none with
    | some (false, e) => some (false, iter D.dbl n e)
    | _ => none
  | .inv _ a =>
    match D.neg, rf.getD a none with
    | some ng, some (c, e) => some (c, ng e)
    | _, _ => none
  | .set _ a => rf.getD a none
  | .sqc _ a n =>
    match rf.getD a none with
    | some (_, e) => some (true, iter D.dbl n e)
    | none => none
  | .dec _ a =>
    match rf.getD a none with
    | some (_, e) => some (false, e)
    | none => none

def srun {E : Type} (D : Dom E) : List Step → List (SReg E) → Option (List (SReg E))
  | [], rf => some rf
  | s :: ss, rf =>
    if s.dst < rf.length then
      match s.sval D rf with
      | some v => srun D ss (rf.set s.dst (some v))
      | none => none
    else none

def sinit {E : Type} (D : Dom E) (n : Nat) : List (SReg E) := some (false, D.one) :: List.replicate (n - 1) none

/-- the exponent the chain computes, `none` when the chain is ill-formed -/
def sym {E : Type} (D : Dom E) (c : Chain) : Option E :=
  if 0 < c.nregs then
    match srun D c.steps (sinit D c.nregs) with
    | some rf =>
      match rf.getD c.out none with
      | some (false, e) => some e
      | _ => none
    | none => none
  else none

def natDom : Dom Nat := { one := 1, add := (· + ·), dbl := fun e => 2 * e, neg := none }
def intDom : Dom Int := { one := 1, add := (· + ·), dbl := fun e => 2 * e, neg := some (fun e => -e) }

/-- exponent in ℕ (field chains: products and squarings only) -/
def expoNat (c : Chain) : Option Nat := sym natDom c
/-- exponent in ℤ (cyclotomic / curve chains: with inverses) -/
def expoInt (c : Chain) : Option Int := sym intDom c

/-! ## quantities derived from the modulus (what `Legendre` / `Sqrt` of `element.go` need) -/

/-- strip at most `fuel` factors 2: returns `(s, e)` with `n = 2^e·s` -/
def split2 : Nat → Nat → Nat → Nat × Nat
  | 0, s, e => (s, e)
  | f+1, s, e => if s % 2 = 0 ∧ s ≠ 0 then split2 f (s / 2) (e + 1) else (s, e)

/-- odd part `s` of `n = 2^e·s` (`n > 0`) -/
def oddPart (n : Nat) : Nat := (split2 (n.log2 + 1) n 0).1

/-- 2-adic valuation `e` of `n = 2^e·s` (`n > 0`) -/
def twoAdicity (n : Nat) : Nat := (split2 (n.log2 + 1) n 0).2

/-- `(q-1)/2` (Euler's criterion) -/
def legendreExponent (q : Nat) : Nat := (q - 1) / 2

/-- the exponent `Sqrt` of `element.go` needs from `expBySqrtExp`:
`q ≡ 3 (mod 4)`: `(q+1)/4` (the candidate root itself); `q ≡ 5 (mod 8)` (Atkin): `(q-5)/8`;
otherwise (Tonelli–Shanks, `q - 1 = 2^e·s`, `s` odd): `(s-1)/2` -/
def sqrtExponent (q : Nat) : Nat :=
  if q % 4 = 3 then (q + 1) / 4
  else if q % 8 = 5 then (q - 5) / 8
  else (oddPart (q - 1) - 1) / 2

end GV.Chain
