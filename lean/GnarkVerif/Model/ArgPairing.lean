import GnarkVerif.Model.Util
import GnarkVerif.Model.Alg
import GnarkVerif.Gen.Fields
/-
C17 (pairing-based half): executable models of the verifiers (and, where the prover is short, of the provers) of
Pedersen commitments with proof of knowledge, SHPLONK, fflonk, the permutation argument, plookup and the
KZG setup-ceremony update proofs, in the KNOWN-TRAPDOOR EXPONENT MODEL of DESIGN §3 C11/C17:

* a group element of G1, G2 or GT is its discrete logarithm, a scalar of the field `F` (`F : FOps α`, the driver
  instantiates `fp r` on `Nat`, the theorems any dictionary with a lawful denotation into a field);
* a multi-exponentiation is a dot product, a pairing-product check `∏ e(Pᵢ,Qᵢ) = 1` is `Σ pᵢ·qᵢ = 0`;
* a KZG SRS with trapdoor τ is the list `(1, τ, τ², …)`; committing is the dot product with it;
* Fiat–Shamir challenges are PARAMETERS (the harness records the values derived by the Go transcript);
* polynomials are coefficient lists, low degree first, exactly as `[]fr.Element` in the Go code.

Verdicts: `some true` accept, `some false` reject (an error returned by a check), `none` structural error
(length mismatch / size error raised before any check).
-/
namespace GV.ArgPairing
open GV GV.Alg

section generic
variable {α : Type} (F : FOps α)

/-! ## 0. scalars, dot products, pairing check -/

/-- multi-exponentiation in the exponent (zip, like `MultiExp` on equal-length slices) -/
def dot : List α → List α → α
  | a :: as, b :: bs => F.add (F.mul a b) (dot as bs)
  | _, _ => F.zero

/-- `∏ e(Pᵢ, Qᵢ) = 1` in the exponent -/
def pairingCheck (g1 g2 : List α) : Bool := F.beq (dot F g1 g2) F.zero

/-- `[acc, acc·r, acc·r², …]`, `n` entries -/
def powersFrom (r : α) : Nat → α → List α
  | 0, _ => []
  | n+1, acc => acc :: powersFrom r n (F.mul acc r)

/-- `G1Affine.Fold`: `Σ rⁱ·Pᵢ` -/
def fold (pts : List α) (r : α) : α := dot F pts (powersFrom F r pts.length F.one)

/-- x^n for small n (linear) -/
def npow (x : α) : Nat → α
  | 0 => F.one
  | n+1 => F.mul (npow x n) x

/-! ## 1. Pedersen (ecc/<curve>/fr/pedersen/pedersen.go) -/

structure PedPk (α : Type) where
  basis : List α
  basisExpSigma : List α

structure PedVk (α : Type) where
  G : α
  GSigmaNeg : α

/-- `Setup` with the G2 point `[g]G2` and the toxic scalar σ made explicit -/
def pedSetup (g σ : α) (bases : List (List α)) : List (PedPk α) × PedVk α :=
  (bases.map (fun b => { basis := b, basisExpSigma := b.map (fun x => F.mul σ x) }),
   { G := g, GSigmaNeg := F.neg (F.mul σ g) })

def pedCommit (pk : PedPk α) (v : List α) : Option α :=
  if v.length ≠ pk.basis.length then none else some (dot F pk.basis v)

def pedProve (pk : PedPk α) (v : List α) : Option α :=
  if v.length ≠ pk.basis.length then none else some (dot F pk.basisExpSigma v)

/-- `VerifyingKey.Verify`: `e(C, G^{-σ})·e(pok, G) = 1` (the subgroup checks are vacuous in the exponent model) -/
def pedVerify (vk : PedVk α) (C pok : α) : Bool := pairingCheck F [C, pok] [vk.GSigmaNeg, vk.G]

/-- `BatchProve`: one MSM over the concatenated `BasisExpSigma` with the i-th value vector scaled by `rⁱ` -/
def pedBatchProveGo : List (PedPk α) → List (List α) → α → α → Option α
  | pk :: pks, v :: vs, r, ri =>
    if v.length ≠ pk.basis.length then none else
    (pedBatchProveGo pks vs r (F.mul ri r)).map
      (fun rest => F.add (dot F pk.basisExpSigma (v.map (fun x => F.mul x ri))) rest)
  | _, _, _, _ => some F.zero

def pedBatchProve (pks : List (PedPk α)) (vals : List (List α)) (r : α) : Option α :=
  if pks.length ≠ vals.length then none else pedBatchProveGo F pks vals r F.one

/-- the G1 side `C₀, r·C₁, r²·C₂, …` of the batched pairing -/
def scaleByPowers : List α → α → α → List α
  | [], _, _ => []
  | c :: cs, r, ri => F.mul ri c :: scaleByPowers cs r (F.mul ri r)

/-- `BatchVerifyMultiVk`. The empty batch is accepted by the model (the prover explicitly supports it);
the Go code indexes `commitments[0]` and panics – reported as a finding. -/
def pedBatchVerify (vks : List (PedVk α)) (cs poks : List α) (r : α) : Option Bool :=
  if cs.length ≠ vks.length then none
  else if vks.length ≠ poks.length ∧ poks.length ≠ 1 then none
  else match vks with
  | [] => some true
  | vk0 :: _ =>
    if vks.any (fun vk => !(F.beq vk.G vk0.G)) then some false else
    some (pairingCheck F (scaleByPowers F cs r F.one ++ [fold F poks r])
                         (vks.map (·.GSigmaNeg) ++ [vk0.G]))

/-! ## 2. coefficient-list polynomials (helpers of shplonk.go / fflonk.go) -/

/-- Horner, `eval` -/
def evalP (f : List α) (x : α) : α := f.foldr (fun a y => F.add (F.mul y x) a) F.zero

def addP : List α → List α → List α
  | [], g => g
  | f, [] => f
  | a :: f, b :: g => F.add a b :: addP f g

def subP : List α → List α → List α
  | [], g => g.map F.neg
  | f, [] => f
  | a :: f, b :: g => F.sub a b :: subP f g

/-- `Σ_{i<n} g i` -/
def sumN (g : Nat → α) : Nat → α
  | 0 => F.zero
  | n+1 => F.add (sumN g n) (g n)

/-- polynomial sum `Σ_{i<n} g i` -/
def sumP (g : Nat → List α) : Nat → List α
  | 0 => []
  | n+1 => addP F (sumP g n) (g n)

/-- `mulByConstant` -/
def scaleP (c : α) (f : List α) : List α := f.map (fun a => F.mul a c)

/-- `mul` (schoolbook) -/
def mulP (f : List α) : List α → List α
  | [] => []
  | b :: g => addP F (scaleP F b f) (F.zero :: mulP f g)

/-- `multiplyLinearFactor`: `(X − a)·f` -/
def mulLin (f : List α) (a : α) : List α := subP F (F.zero :: f) (scaleP F a f)

/-- `buildVanishingPoly`: `∏ (X − xᵢ)` -/
def vanishing (xs : List α) : List α := xs.foldl (mulLin F) [F.one]

/-- `buildZtMinusSi` -/
def ztMinusSi (points : List (List α)) (i : Nat) : List α :=
  vanishing F (points.eraseIdx i).flatten

/-- `buildLagrangeFromDomain` (Inverse(0) = 0 as in gnark-crypto) -/
def lagrange (xs : List α) (i : Nat) : List α :=
  let v := vanishing F (xs.eraseIdx i)
  scaleP F (F.inv (evalP F v (xs.getD i F.zero))) v

/-- `interpolate`: `Σᵢ yᵢ·Lᵢ` (the caller guarantees `ys.length ≥ xs.length`, else the Go code panics) -/
def interpolate (xs ys : List α) : List α :=
  sumP F (fun i => scaleP F (ys.getD i F.zero) (lagrange F xs i)) xs.length

def padTo (n : Nat) (f : List α) : List α := f ++ List.replicate (n - f.length) F.zero

/-- subtract `g` from the prefix of `f` (the inner loop of `div`) -/
def subPrefix : List α → List α → List α
  | a :: f, b :: g => F.sub a b :: subPrefix f g
  | f, _ => f

/-- `div` on the reversed coefficient lists: `k` quotient coefficients, high degree first; `gt` are the
non-leading coefficients of the (monic) divisor, high degree first -/
def divRev (gt : List α) : Nat → List α → List α
  | 0, _ => []
  | _, [] => []
  | k+1, c :: rest => c :: divRev gt k (subPrefix F rest (scaleP F c gt))

/-- `div(f, g)`: quotient of the division of `f` by the MONIC `g` (the leading coefficient of `g` is never read,
exactly as in the Go code); `len f − (len g − 1)` coefficients -/
def divP (f g : List α) : List α :=
  (divRev F (g.reverse.drop 1) (f.length - (g.length - 1)) f.reverse).reverse

/-! ## 3. KZG commitment in the exponent -/

/-- `kzg.Commit`: error on the empty polynomial and on polynomials longer than the SRS -/
def kzgCommit (srs : List α) (p : List α) : Option α :=
  if p.length = 0 ∨ p.length > srs.length then none else some (dot F srs p)

/-! ## 4. SHPLONK (ecc/<curve>/shplonk/shplonk.go)
The Go loops over the polynomial index `i` are rendered as sums over `i < n` with `getD` accessors. -/

structure ShProof (α : Type) where
  W : α
  WPrime : α
  claimed : List (List α)

def maxLen (ls : List (List α)) : Nat := ls.foldl (fun m l => max m l.length) 0

/-- the claimed values `fᵢ(x)`, `x ∈ Sᵢ` -/
def shClaimed (polys points : List (List α)) : List (List α) :=
  (List.range polys.length).map (fun i => (points.getD i []).map (evalP F (polys.getD i [])))

/-- `rᵢ = interpolate(Sᵢ, claimedᵢ)` -/
def shRi (points claimed : List (List α)) (i : Nat) : List α :=
  interpolate F (points.getD i []) (claimed.getD i [])

/-- `f = Σᵢ γⁱ·Z_{T∖Sᵢ}·(fᵢ − rᵢ)` -/
def shF (polys points claimed : List (List α)) (γ : α) : List α :=
  sumP F (fun i => scaleP F (npow F γ i)
      (mulP F (subP F (polys.getD i []) (shRi F points claimed i)) (ztMinusSi F points i))) polys.length

/-- `γⁱ·Z_{T∖Sᵢ}(z)` -/
def shGz (points : List (List α)) (γ z : α) (i : Nat) : α :=
  F.mul (npow F γ i) (evalP F (ztMinusSi F points i) z)

/-- `L = Σᵢ γⁱ·Z_{T∖Sᵢ}(z)·(fᵢ − rᵢ(z)) − Z_T(z)·w` -/
def shL (polys points claimed : List (List α)) (γ z : α) (w : List α) : List α :=
  subP F (sumP F (fun i => scaleP F (shGz F points γ z i)
            (subP F (padTo F 1 (polys.getD i [])) [evalP F (shRi F points claimed i) z])) polys.length)
         (scaleP F (evalP F (vanishing F points.flatten) z) w)

/-- `totalSize = maxSizePolys + nbPoints`, the buffer length of `BatchOpen` -/
def shTotal (polys points : List (List α)) : Nat :=
  max (maxLen polys) (maxLen points + 1) + points.flatten.length

/-- the quotient `w = f / Z_T` (`maxSizePolys` coefficients) -/
def shW (polys points : List (List α)) (γ : α) : List α :=
  divP F (padTo F (shTotal polys points) (shF F polys points (shClaimed F polys points) γ))
    (vanishing F points.flatten)

/-- the quotient `w' = L / (X − z)` (`totalSize − 1` coefficients) -/
def shWP (polys points : List (List α)) (γ z : α) : List α :=
  divP F (padTo F (shTotal polys points)
      (shL F polys points (shClaimed F polys points) γ z (shW F polys points γ))) (vanishing F [z])

/-- `BatchOpen` with the two challenges `γ`, `z` as parameters; `srs` = G1 part of the proving key in the exponent -/
def shOpen (srs : List α) (polys points : List (List α)) (γ z : α) : Option (ShProof α) :=
  if polys.length ≠ points.length then none else
  if polys.length = 0 then none else   -- the Go code reads polynomials[0]
  match kzgCommit F srs (shW F polys points γ), kzgCommit F srs (shWP F polys points γ z) with
  | some W, some WP => some { W := W, WPrime := WP, claimed := shClaimed F polys points }
  | _, _ => none

/-- the G1 element `f` of `BatchVerify` (before the final negation):
`Σ γⁱ Z_{T∖Sᵢ}(z)·Cᵢ − (Σ γⁱ Z_{T∖Sᵢ}(z)·rᵢ(z))·G1 − Z_T(z)·W + z·W'` -/
def shFolded (g1 : α) (proof : ShProof α) (digests : List α) (points : List (List α)) (γ z : α) : α :=
  let n := points.length
  let sumR := sumN F (fun i => F.mul (shGz F points γ z i) (evalP F (shRi F points proof.claimed i) z)) n
  let ztz := evalP F (vanishing F points.flatten) z
  F.add (F.sub (F.sub (dot F digests ((List.range n).map (shGz F points γ z))) (F.mul sumR g1))
               (F.mul ztz proof.W)) (F.mul z proof.WPrime)

/-- `BatchVerify`; the verifying key in the exponent is `(g1, h0, h1)` = `(1, 1, τ)` for an honest SRS -/
def shVerify (g1 h0 h1 : α) (proof : ShProof α) (digests : List α) (points : List (List α)) (γ z : α) : Option Bool :=
  if digests.length ≠ proof.claimed.length then none
  else if digests.length ≠ points.length then none
  else some (pairingCheck F [F.neg (shFolded F g1 proof digests points γ z), proof.WPrime] [h0, h1])

/-! ## 5. fflonk (ecc/<curve>/fflonk/fflonk.go)
`nextDiv i` = `getNextDivisorRMinusOne i`, `root t` = `getIthRootOne t` (error when `t ∤ r−1`) are parameters. -/

/-- `Fold`: `Σⱼ Xʲ·pⱼ(Xᵗ)` with `t = nextDiv (len p)` -/
def ffFold (nextDiv : Nat → Nat) (p : List (List α)) : List α :=
  let t := nextDiv p.length
  let n := maxLen p
  (List.range (n * t)).map (fun k => ((p.getD (k % t) []).getD (k / t) F.zero))

/-- `extendSet` -/
def ffExtend (ω : α) (t : Nat) (pts : List α) : List α :=
  (pts.map (fun x => powersFrom F ω t x)).flatten

structure FfProof (α : Type) where
  sh : ShProof α
  claimed : List (List (List α))

def ffOpen (nextDiv : Nat → Nat) (root : Nat → Option α) (srs : List α)
    (p : List (List (List α))) (points : List (List α)) (γ z : α) : Option (FfProof α) :=
  if p.length ≠ points.length then none else
  let ts := p.map (fun pi => nextDiv pi.length)
  let claimed := (p.zip (points.zip ts)).map (fun (pi, s, t) =>
      (List.range t).map (fun j => s.map (fun x => evalP F (pi.getD j []) (npow F x t))))
  let folded := p.map (ffFold F nextDiv)
  let newPoints := (points.zip ts).mapM (fun (s, t) => (root t).map (fun ω => ffExtend F ω t s))
  match newPoints with
  | none => none
  | some np => (shOpen F srs folded np γ z).map (fun sh => { sh := sh, claimed := claimed })

/-- the folding-consistency check of `BatchVerify` for pack `i` -/
def ffFoldOk (ω : α) (cv : List (List α)) (pts : List α) (shcv : List α) : Bool :=
  let t := cv.length
  let sizeSi := (cv.headD []).length
  (List.range sizeSi).all (fun j =>
    let poly := cv.map (fun c => c.getD j F.zero)
    (List.range t).all (fun l =>
      F.beq (evalP F poly (F.mul (pts.getD j F.zero) (npow F ω l))) (shcv.getD (j * t + l) F.zero)))

def ffVerify (root : Nat → Option α) (g1 h0 h1 : α) (proof : FfProof α) (digests : List α)
    (points : List (List α)) (γ z : α) : Option Bool :=
  -- size checks (errors)
  if (proof.claimed.zip proof.sh.claimed).any (fun (cv, shcv) =>
        cv.any (fun c => c.length ≠ (cv.headD []).length) ||
        (cv.headD []).length * cv.length ≠ shcv.length) then none else
  match (proof.claimed.mapM (fun cv => root cv.length)) with
  | none => none
  | some ωs =>
  if !((proof.claimed.zip (ωs.zip (points.zip proof.sh.claimed))).all
        (fun (cv, ω, pts, shcv) => ffFoldOk F ω cv pts shcv)) then some false else
  let ext := (points.zip (proof.claimed.zip ωs)).map (fun (s, cv, ω) => ffExtend F ω cv.length s)
  -- points beyond the claimed packs: the Go code indexes proof.ClaimedValues[i] for every i < len(points)
  if points.length ≠ proof.claimed.length then none else
  shVerify F g1 h0 h1 proof.sh digests ext γ z

/-! ## 6. permutation argument (ecc/<curve>/fr/permutation/permutation.go), verifier only
The prover (FFT-based) is not modelled: the discrete logarithms of its commitments are not available to the harness, so
the two KZG opening checks are NAMED CHECKS whose status is a parameter (asserted by the harness from the mutation);
the polynomial identity at η and the generator check are computed from the claimed values and the challenges. -/

/-- `(z(gη)(ε − t₂(η)) − z(η)(ε − t₁(η))) + ω·L₀(η)(z(η) − 1) = (ηⁿ − 1)·q(η)`;
`cv = [t₁(η), t₂(η), z(η), q(η)]`, `sv = z(gη)` -/
def permIdentity (n : Nat) (cv : List α) (sv ε ω η : α) : Bool :=
  let c := fun i => cv.getD i F.zero
  let rhs0 := F.sub (npow F η n) F.one
  let l0 := F.mul rhs0 (F.inv (F.sub η F.one))
  let a := F.mul (F.sub ε (c 1)) sv
  let b := F.mul (F.sub ε (c 0)) (c 2)
  let lhs := F.add (F.mul (F.mul (F.sub (c 2) F.one) l0) ω) (F.sub a b)
  F.beq lhs (F.mul rhs0 (c 3))

/-- `g` has order exactly `n` (for `n` a power of two): `g^(n/2) ≠ 1 ∧ g^n = 1` -/
def genCheck (n : Nat) (g : α) : Bool :=
  let c := npow F g (n / 2)
  !(F.beq c F.one) && F.beq (F.mul c c) F.one

/-- `size & (size-1) == 0` (the size test that /repo a837c8b put before the generator check: true of 0 and of the powers of two) -/
def sizeOk (n : Nat) : Bool := (n &&& (n - 1)) == 0

/-- the checks in the order of the Go text: identity, batched opening, shifted opening, `ErrSize`, `ErrGenerator` -/
def permVerify (n : Nat) (g : α) (cv : List α) (sv ε ω η : α) (kzgBatch kzgShift : Bool) : Bool :=
  permIdentity F n cv sv ε ω η && kzgBatch && kzgShift && sizeOk n && genCheck F n g

/-! ### specification of the prover-supplied parameters `(size, g)` and of the statement
Used for the CONSISTENT forgeries (`mut=consist`): every component of the proof is derived honestly for a given `(size, g)`,
so the verdict is the specification's: `size` is a power of two ≥ 2 (the only sizes `Prove` produces), `g` is a PRIMITIVE
`size`-th root of unity, and the second vector is a permutation of the first. -/

/-- `g` is a primitive `n`-th root of unity: `gⁿ = 1` and `gᵏ ≠ 1` for `0 < k < n` (brute force, `n` is small) -/
def isPrimRoot (n : Nat) (g : α) : Bool :=
  decide (0 < n) && F.beq (npow F g n) F.one &&
    (List.range n).all (fun k => k == 0 || !(F.beq (npow F g k) F.one))

/-- `n = 2ᵏ` for some `k` -/
def isPow2 (n : Nat) : Bool := (List.range (n + 1)).any (fun k => 2 ^ k == n)

def countF (x : α) (l : List α) : Nat := (l.filter (fun y => F.beq x y)).length

/-- multiset equality: every element of either list occurs equally often in both -/
def isPerm (a b : List α) : Bool :=
  a.all (fun x => countF F x a == countF F x b) && b.all (fun x => countF F x a == countF F x b)

/-- the specification's verdict on a proof whose components are all consistent with `(n, g)` -/
def permSpec (n : Nat) (g : α) (t1 t2 : List α) : Bool :=
  decide (2 ≤ n) && isPow2 n && isPrimRoot F n g && isPerm F t1 t2

/-! ## 7. plookup (ecc/<curve>/fr/plookup/{vector,table}.go), verifiers only (same convention as §6) -/

/-- the quotient identity of `VerifyLookupVector` at ν; `cv = [h₁,h₂,t,z,f,h](ν)`, `scv = [h₁,h₂,t,z](gν)` -/
def plkIdentity (n : Nat) (g : α) (cv scv : List α) (β γ αc ν : α) : Bool :=
  let c := fun i => cv.getD i F.zero
  let s := fun i => scv.getD i F.zero
  let gn1 := npow F g (n - 1)
  let v := F.add F.one β
  let w := F.mul v γ
  let d2 := F.sub ν gn1
  let lhs := F.mul (F.mul (F.mul (F.mul d2 (c 3)) v) (F.add γ (c 4))) (F.add (F.add (F.mul β (s 2)) (c 2)) w)
  let rhs := F.mul (F.mul (F.mul d2 (s 3)) (F.add (F.add (F.mul β (s 0)) (c 0)) w)) (F.add (F.add (F.mul β (s 1)) (c 1)) w)
  let nun1 := F.sub (npow F ν n) F.one
  let l0 := F.mul nun1 (F.inv (F.sub ν F.one))
  let ln := F.mul nun1 (F.inv d2)
  let l0z := F.mul (F.sub (c 3) F.one) l0
  let lnz := F.mul ln (F.sub (c 3) F.one)
  let lnh := F.mul (F.sub (c 0) (s 1)) ln
  let num := F.add (F.mul (F.add (F.mul (F.add (F.mul lnh αc) lnz) αc) l0z) αc) (F.sub lhs rhs)
  F.beq num (F.mul (c 5) nun1)

def plkVerify (n : Nat) (g : α) (cv scv : List α) (β γ αc ν : α) (kzgBatch kzgShift : Bool) : Bool :=
  kzgBatch && kzgShift && sizeOk n && genCheck F n g && plkIdentity F n g cv scv β γ αc ν

/-- every looked-up value is in the table -/
def isSubset (f t : List α) : Bool := f.all (fun x => t.any (fun y => F.beq x y))

/-- the specification's verdict on a plookup vector proof whose components are all consistent with `(n, g)` -/
def plkSpec (n : Nat) (g : α) (f t : List α) : Bool :=
  decide (2 ≤ n) && isPow2 n && isPrimRoot F n g && isSubset F f t

/-- `VerifyLookupTables` as the property demands: the folded `f` commitment, the permutation proof, the BINDING of the
permutation proof to (folded `ts`, `foldedProof.t`), the vector proof. The Go code computes the folded `ts` commitment and
never uses it: the binding check is absent (finding). -/
def plkTableVerify (cf perm bind vec : Bool) : Bool := cf && perm && bind && vec

/-! ## 8. setup ceremony (ecc/<curve>/mpcsetup/mpcsetup.go, ecc/<curve>/kzg/mpcsetup.go)
Random linear combinations are modelled by their "for all coefficients" meaning (coefficient-wise equality). -/

/-- `sameRatio(n₁,d₁,n₂,d₂)`: `e(n₁,d₂) = e(d₁,n₂)` -/
def sameRatio (n1 d1 n2 d2 : α) : Bool := F.beq (F.mul n1 d2) (F.mul d1 n2)

/-- `sᵢ·tⱼ₊₁ = sᵢ₊₁·tⱼ` for all consecutive pairs -/
def geomPair (s t : List α) : Bool :=
  (List.range (s.length - 1)).all fun i => (List.range (t.length - 1)).all fun j =>
    F.beq (F.mul (s.getD i F.zero) (t.getD (j+1) F.zero)) (F.mul (s.getD (i+1) F.zero) (t.getD j F.zero))

/-- `SameRatioMany` (G1 slices, G2 slices) -/
def sameRatioMany (g1s g2s : List (List α)) : Bool :=
  g1s.all (fun s => decide (2 ≤ s.length)) && g2s.all (fun s => decide (2 ≤ s.length)) &&
  !g1s.isEmpty && !g2s.isEmpty &&
  g1s.any (fun s => !(F.beq (s.headD F.zero) F.zero)) && g2s.any (fun s => !(F.beq (s.headD F.zero) F.zero)) &&
  g1s.all (fun s => g2s.all (fun t => geomPair F s t))

/-- update proof in the exponent: commitment `[com]G1`, proof of knowledge `π = pokx·R` where `R` is the hashed G2 base;
`pokKnown = false`: π is not a known multiple of the base the verifier derives (asserted to fail) -/
structure UpdProof (α : Type) where
  com : α
  pokx : α
  pokKnown : Bool

/-- `UpdateProof.Verify`: nonzero contribution, proof of knowledge, G1 representations scaled by the PoK factor, G2
representations scaled by the commitment -/
def updVerify (p : UpdProof α) (prev1 next1 prev2 next2 : List α) : Bool :=
  !(F.beq p.com F.zero) && (p.pokKnown && F.beq p.com p.pokx) &&
  (prev1.length == next1.length) && (prev2.length == next2.length) &&
  (prev1.zip next1).all (fun (a, b) => F.beq b (F.mul p.pokx a)) &&
  (prev2.zip next2).all (fun (a, b) => F.beq (F.mul p.com a) b)

/-- `kzg.MpcSetup.Verify(next)`. `goVariant = false`: the same-ratio check is on the NEXT SRS (what the property demands);
`goVariant = true`: on the previous one, as the Go code does (kzg/mpcsetup.go:156) -/
def mpcVerify (goVariant : Bool) (prevG1 : List α) (prevG2 : α) (nextG1 : List α) (nextG2 : α) (p : UpdProof α)
    (chalOk : Bool) : Bool :=
  chalOk && (prevG1.length == nextG1.length) && updVerify F p [] [] [prevG2] [nextG2] &&
  (if goVariant then sameRatioMany F [prevG1] [[F.one, prevG2]] else sameRatioMany F [nextG1] [[F.one, nextG2]])

/-! ### subgroup membership: outside the exponent model, carried as FLAGS
A point `P + T` with `T` of cofactor order has the discrete logarithm of `P` (its component in the prime-order subgroup) and
the flag `false`. The verifiers subgroup-check their arguments: every flag is a named check. -/

/-- `UpdateProof.Verify` with the membership flags of its own two elements (commitment in G1, proof of knowledge in G2);
the representations are NOT subgroup-checked by `UpdateProof.Verify` (mpcsetup.go says so) -/
def updVerifySub (subCom subPok : Bool) (p : UpdProof α) (prev1 next1 prev2 next2 : List α) : Bool :=
  subCom && subPok && updVerify F p prev1 next1 prev2 next2

/-- `kzg.MpcSetup.Verify(next)` with the membership flags of EVERY element of `next`: `subG1` for `[x]₁ … [x^{n−1}]₁`
(one flag per power after the generator), `subG2` for `[x]₂`, `subCom` / `subPok` for the update proof -/
def mpcVerifySub (subG1 : List Bool) (subG2 subCom subPok : Bool) (prevG1 : List α) (prevG2 : α) (nextG1 : List α)
    (nextG2 : α) (p : UpdProof α) (chalOk : Bool) : Bool :=
  subG1.all id && subG2 && subCom && subPok && mpcVerify F false prevG1 prevG2 nextG1 nextG2 p chalOk

end generic
end GV.ArgPairing

/-! ## 9. line protocol -/
namespace GV.ArgPairing
open GV GV.Alg

/-- Fr generator of `fft.GeneratorFullMultiplicativeGroup` per curve (constants of <curve>/fr/fft/domain.go) -/
def curveInfo (curve : String) : Option (Nat × Nat) :=
  let g := match curve with
    | "bn254" => 5 | "bls12-377" => 22 | "bls12-381" => 7 | "bls24-315" => 7 | "bls24-317" => 7
    | "bw6-633" => 13 | "bw6-761" => 15 | _ => 0
  let nm := (curve.replace "-" "_") ++ "_fr"
  match Gen.allFields.find? (·.name == nm) with
  | some fc => if g = 0 then none else some (fc.q, g)
  | none => none

def kv (args : List String) (key : String) : String :=
  match args.find? (fun a => (a.splitOn "=").head? == some key) with
  | some a => "=".intercalate ((a.splitOn "=").drop 1)
  | none => ""

def parseL (s : String) : List Nat := if s == "-" || s == "" || s == "_" then [] else (s.splitOn ",").map parseHexD
def parseLL (s : String) : List (List Nat) := if s == "_" || s == "" then [] else (s.splitOn ";").map parseL
def parseLLL (s : String) : List (List (List Nat)) := if s == "_" || s == "" then [] else (s.splitOn "|").map parseLL

def verdict : Option Bool → String
  | some true => "1"
  | some false => "0"
  | none => "err"

def setAt {β : Type} (l : List β) (i : Nat) (f : β → β) : List β := l.modify i f

/-- next divisor of r−1 (`getNextDivisorRMinusOne`, at most 100 trials) -/
def nextDivisor (rm1 : Nat) (i : Nat) : Nat :=
  let rec go (fuel i : Nat) : Nat :=
    match fuel with
    | 0 => i
    | f+1 => if i ≠ 0 ∧ rm1 % i = 0 then i else go f (i+1)
  go 100 i

def rootOfUnity (r gen : Nat) (t : Nat) : Option Nat :=
  if t = 0 ∨ (r - 1) % t ≠ 0 then none else some (powMod gen ((r - 1) / t) r)

/-! ### pedersen -/

def handlePedSingle (r : Nat) (a : List String) : String :=
  let F := fp r
  let g := parseHexD (kv a "g") % r
  let σ := parseHexD (kv a "s") % r
  let b := (parseL (kv a "b")).map (· % r)
  let v := (parseL (kv a "v")).map (· % r)
  let v2 := (parseL (kv a "v2")).map (· % r)
  let m := parseHexD (kv a "m") % r
  let (pks, vk) := pedSetup F g σ [b]
  match pks with
  | [pk] =>
    match pedCommit F pk v, pedProve F pk v with
    | some C, some pok =>
      let C2 := (pedCommit F pk v2).getD 0
      let pok2 := (pedProve F pk v2).getD 0
      let ok (vk : PedVk Nat) (C pok : Nat) := boolStr (pedVerify F vk C pok)
      match kv a "mut" with
      | "none" => ok vk C pok
      | "Cset" => ok vk m pok
      | "Cadd" => ok vk (F.add C m) pok
      | "Czero" => ok vk 0 pok
      | "Pset" => ok vk C m
      | "Padd" => ok vk C (F.add pok m)
      | "Pzero" => ok vk C 0
      | "Cother" => ok vk C2 pok
      | "Pother" => ok vk C pok2
      | "both" => ok vk C2 pok2
      | "swap" => ok vk pok C
      | "scale" => ok vk (F.mul m C) (F.mul m pok)
      | "Pkey" => ok vk C (F.mul m C)
      | "vkG" => ok { vk with G := m } C pok
      | "vkS" => ok { vk with GSigmaNeg := m } C pok
      | "Cnosub" => "0"     -- outside the exponent model: the subgroup check is a named check of the verifier
      | "Pnosub" => "0"
      | "Ctor" => "0"       -- honest element + a point of cofactor order: same logarithm, membership flag false
      | "Ptor" => "0"
      | _ => "bad-op"
    | _, _ => "err"
  | _ => "bad-op"

def handlePedBatch (r : Nat) (a : List String) : String :=
  let F := fp r
  let g := parseHexD (kv a "g") % r
  let σs := (parseL (kv a "s")).map (· % r)
  let bs := (parseLL (kv a "b")).map (·.map (· % r))
  let vs := (parseLL (kv a "v")).map (·.map (· % r))
  let rc := parseHexD (kv a "r") % r
  let m := parseHexD (kv a "m") % r
  let i := parseHexD (kv a "i")
  let folded := kv a "mode" == "folded"
  let keys : List (PedPk Nat × PedVk Nat) :=
    if folded then
      let (pks, vk) := pedSetup F g (σs.headD 0) bs
      pks.map (fun pk => (pk, vk))
    else (bs.zip σs).map (fun (b, σ) => match pedSetup F g σ [b] with
      | ([pk], vk) => (pk, vk)
      | (_, vk) => ({ basis := [], basisExpSigma := [] }, vk))
  let pks := keys.map (·.1)
  let vks := keys.map (·.2)
  let cs? := (pks.zip vs).mapM (fun (pk, v) => pedCommit F pk v)
  let poks? : Option (List Nat) :=
    if folded then (pedBatchProve F pks vs rc).map (fun p => [p])
    else (pks.zip vs).mapM (fun (pk, v) => pedProve F pk v)
  match cs?, poks? with
  | some cs, some poks =>
    let k := cs.length
    let run (vks : List (PedVk Nat)) (cs poks : List Nat) (rc : Nat) := verdict (pedBatchVerify F vks cs poks rc)
    match kv a "mut" with
    | "none" => run vks cs poks rc
    | "Cset" => run vks (setAt cs i (fun _ => m)) poks rc
    | "Cadd" => run vks (setAt cs i (fun c => F.add c m)) poks rc
    | "Czero" => run vks (setAt cs i (fun _ => 0)) poks rc
    | "Pset" => run vks cs (setAt poks i (fun _ => m)) rc
    | "Padd" => run vks cs (setAt poks i (fun c => F.add c m)) rc
    | "Pzero" => run vks cs (setAt poks i (fun _ => 0)) rc
    | "Cswap" =>
      let j := (i + 1) % k
      run vks (setAt (setAt cs i (fun _ => cs.getD j 0)) j (fun _ => cs.getD i 0)) poks rc
    | "rv" => run vks cs poks m
    | "vkG" => run (setAt vks i (fun vk => { vk with G := m })) cs poks rc
    | "vkS" => run (setAt vks i (fun vk => { vk with GSigmaNeg := m })) cs poks rc
    | "dropP" => run vks cs poks.dropLast rc
    | "dropC" => run vks cs.dropLast poks rc
    | "scale" => run vks (cs.map (F.mul m)) (poks.map (F.mul m)) rc
    | "Pcomp" => run vks cs (setAt (setAt poks 0 (fun p => F.add p (F.mul m rc))) 1 (fun p => F.sub p m)) rc
    | "Ccancel" => run vks (setAt (setAt cs i (fun c => F.add c m)) ((i + 1) % k) (fun c => F.sub c m)) poks rc
    | "Pcancel" => run vks cs (setAt (setAt poks i (fun c => F.add c m)) ((i + 1) % poks.length) (fun c => F.sub c m)) rc
    | "CzeroAll" => run vks (cs.map (fun _ => 0)) poks rc
    | "PzeroAll" => run vks cs (poks.map (fun _ => 0)) rc
    -- honest element + a point of cofactor order at position i: the membership flag of that argument is false; the
    -- structural errors (raised before the subgroup checks) stay
    | "Ctor" => match pedBatchVerify F vks cs poks rc with
      | none => "err"
      | some _ => if i < cs.length then "0" else "bad-op"
    | "Ptor" => match pedBatchVerify F vks cs poks rc with
      | none => "err"
      | some _ => if i < poks.length then "0" else "bad-op"
    | _ => "bad-op"
  | _, _ => "err"

/-! ### shplonk / fflonk -/

/-- discrete log of the prover's `W` for claimed values `cl`: `Σ γᵏ Z_{T∖S_k}(τ)(f_k(τ) − r_k(τ)) / Z_T(τ)` (`f_k(τ)` = digest) -/
def shWScalar (r : Nat) (digests : List Nat) (points cl : List (List Nat)) (τ γ : Nat) : Nat :=
  let F := fp r
  F.mul (sumN F (fun k => F.mul (F.mul (npow F γ k) (evalP F (ztMinusSi F points k) τ))
      (F.sub (digests.getD k 0) (evalP F (shRi F points cl k) τ))) points.length)
    (F.inv (evalP F (vanishing F points.flatten) τ))

/-- the G1 element `F = Σ γᵏ Z_{T∖S_k}(z)(f_k(τ) − r_k(z)) − Z_T(z)·w` of the verifier (`f_k(τ)` = digest), divided by `den` -/
def shWPDen (r : Nat) (digests : List Nat) (points cl : List (List Nat)) (w γ z den : Nat) : Nat :=
  let F := fp r
  F.mul (F.sub (sumN F (fun k => F.mul (shGz F points γ z k)
      (F.sub (digests.getD k 0) (evalP F (shRi F points cl k) z))) points.length)
      (F.mul (evalP F (vanishing F points.flatten) z) w)) (F.inv den)

/-- `W'` through the trapdoor: `F / (τ − z)` (the verification relation `F = (τ − z)·W'` holds) -/
def shWPTrapdoor (r : Nat) (digests : List Nat) (points cl : List (List Nat)) (τ w γ z : Nat) : Nat :=
  shWPDen r digests points cl w γ z ((fp r).sub τ z)

/-- partial vanishing: `W' = −F / z`: the first operand `F + z·W'` of the verifier's pairing product is the identity -/
def shWPVanish (r : Nat) (digests : List Nat) (points cl : List (List Nat)) (w γ z : Nat) : Nat :=
  shWPDen r digests points cl w γ z ((fp r).neg z)

/-- first `(b, j2)` with `b ≠ i` and `points[b][j2] = x` -/
def shFindOverlap (points : List (List Nat)) (i x : Nat) : Option (Nat × Nat) :=
  (List.range points.length).findSome? (fun b =>
    if b = i then none else
    ((points.getD b []).findIdx? (· == x)).map (fun j2 => (b, j2)))

/-- `∏ (x − s)` over all `s ∈ S_k`, `k ≠ skip`, leaving out the occurrence `(sb, sj)` -/
def shQ (r : Nat) (points : List (List Nat)) (skip sb sj x : Nat) : Nat :=
  let F := fp r
  (List.range points.length).foldl (fun acc k =>
    if k = skip then acc else
    (List.range (points.getD k []).length).foldl (fun acc l =>
      if k = sb ∧ l = sj then acc else F.mul acc (F.sub x ((points.getD k []).getD l 0))) acc) 1

structure ShInst where
  proof : ShProof Nat
  digests : List Nat
  points : List (List Nat)
  g1 : Nat
  h0 : Nat
  h1 : Nat

/-- mutations shared by shplonk and the inner proof of fflonk; `other` = the second honest instance -/
def mutSh (r : Nat) (a : List String) (x : ShInst) (other : Option ShInst) (τ γv zv : Nat) (γp : Nat := 0) : Option ShInst :=
  let F := fp r
  let m := parseHexD (kv a "m") % r
  let i := parseHexD (kv a "i")
  let j := parseHexD (kv a "j")
  let o := other.getD x
  let cv (f : Nat → Nat) : ShInst := { x with proof := { x.proof with claimed := setAt x.proof.claimed i (fun l => setAt l j f) } }
  match kv a "mut" with
  | "none" => some x
  | "cvSet" => some (cv (fun _ => m))
  | "cvAdd" => some (cv (fun c => F.add c m))
  | "cvZero" => some (cv (fun _ => 0))
  | "cvOther" => some (cv (fun _ => (o.proof.claimed.getD i []).getD j 0))
  | "Wset" => some { x with proof := { x.proof with W := m } }
  | "Wadd" => some { x with proof := { x.proof with W := F.add x.proof.W m } }
  | "Wzero" => some { x with proof := { x.proof with W := 0 } }
  | "Wother" => some { x with proof := { x.proof with W := o.proof.W } }
  | "WPset" => some { x with proof := { x.proof with WPrime := m } }
  | "WPadd" => some { x with proof := { x.proof with WPrime := F.add x.proof.WPrime m } }
  | "WPzero" => some { x with proof := { x.proof with WPrime := 0 } }
  | "WPother" => some { x with proof := { x.proof with WPrime := o.proof.WPrime } }
  | "Wswap" => some { x with proof := { x.proof with W := x.proof.WPrime, WPrime := x.proof.W } }
  | "digSet" => some { x with digests := setAt x.digests i (fun _ => m) }
  | "digAdd" => some { x with digests := setAt x.digests i (fun c => F.add c m) }
  | "digZero" => some { x with digests := setAt x.digests i (fun _ => 0) }
  | "digOther" => some { x with digests := setAt x.digests i (fun _ => o.digests.getD i 0) }
  | "ptSet" => some { x with points := setAt x.points i (fun l => setAt l j (fun _ => m)) }
  | "ptAdd" => some { x with points := setAt x.points i (fun l => setAt l j (fun c => F.add c m)) }
  -- malformed proof objects (wrong number of components)
  | "cvDrop" => some { x with proof := { x.proof with claimed := setAt x.proof.claimed i (fun l => l.dropLast) } }
  | "cvExtra" => some { x with proof := { x.proof with claimed := setAt x.proof.claimed i (fun l => l ++ [m]) } }
  | "cvDropSet" => some { x with proof := { x.proof with claimed := x.proof.claimed.dropLast } }
  | "digDrop" => some { x with digests := x.digests.dropLast }
  | "ptsDrop" => some { x with points := x.points.dropLast }
  | "vkG1" => some { x with g1 := m }
  | "vkH0" => some { x with h0 := m }
  | "vkH1" => some { x with h1 := m }
  | "forge" =>
    -- TRAPDOOR forgery: claimed[i][j] += m, W kept, W' recomputed through τ for the verifier's challenges (they depend on
    -- the claimed values since the fix 420bc96): the relation holds although the statement is false
    let cl := setAt x.proof.claimed i (fun l => setAt l j (fun c => F.add c m))
    some { x with proof := { x.proof with claimed := cl,
                                           WPrime := shWPTrapdoor r x.digests x.points cl τ x.proof.W γv zv } }
  | "vanish" =>
    -- PARTIAL-VANISHING forgery: claimed[i][j] += m, W kept, W' := −F/z for the verifier's challenges
    let cl := setAt x.proof.claimed i (fun l => setAt l j (fun c => F.add c m))
    some { x with proof := { x.proof with claimed := cl,
                                           WPrime := shWPVanish r x.digests x.points cl x.proof.W γv zv } }
  | "overlap" =>
    -- NO-TRAPDOOR forgery for a point that belongs to two opening sets; the forger uses the honest prover's γ (γp)
    let xx := (x.points.getD i []).getD j 0
    match shFindOverlap x.points i xx with
    | none => none
    | some (b, j2) =>
      let qa := shQ r x.points i b j2 xx
      let qb := shQ r x.points b i j xx
      if qa = 0 ∨ qb = 0 then none else
      let db := F.neg (F.mul (F.mul (F.mul (npow F γp i) qa) m) (F.inv (F.mul (npow F γp b) qb)))
      let cl := setAt (setAt x.proof.claimed i (fun l => setAt l j (fun c => F.add c m))) b (fun l => setAt l j2 (fun c => F.add c db))
      let w := shWScalar r x.digests x.points cl τ γp
      some { x with proof := { claimed := cl, W := w, WPrime := shWPTrapdoor r x.digests x.points cl τ w γp zv } }
  | _ => none

def handleShplonk (r : Nat) (a : List String) : String :=
  let F := fp r
  let τ := parseHexD (kv a "tau") % r
  let n := parseHexD (kv a "n")
  let srs := powersFrom F τ n 1
  let polys := (parseLL (kv a "p")).map (·.map (· % r))
  let polys2 := (parseLL (kv a "p2")).map (·.map (· % r))
  let pts := (parseLL (kv a "pts")).map (·.map (· % r))
  let ch (k : String) := parseHexD (kv a k) % r
  let inst (polys : List (List Nat)) (γ z : Nat) : Option ShInst :=
    match polys.mapM (kzgCommit F srs), shOpen F srs polys pts γ z with
    | some d, some p => some { proof := p, digests := d, points := pts, g1 := 1, h0 := 1, h1 := τ }
    | _, _ => none
  match inst polys (ch "gp") (ch "zp") with
  | none => "err"
  | some x =>
    let other := if polys2.isEmpty then none else inst polys2 (ch "g2") (ch "z2")
    match mutSh r a x other τ (ch "gv") (ch "zv") (ch "gp") with
    | none => "bad-op"
    | some y =>
      -- shape validation of BatchVerify (fix ee9fcd5): every row of claimed values must match its point set
      if y.digests.length = y.proof.claimed.length ∧ y.digests.length = y.points.length ∧
         (List.zip y.points y.proof.claimed).any (fun pc => pc.1.length ≠ pc.2.length) then "err"
      else if kv a "mut" = "overlap" ∧ y.proof.claimed ≠ shClaimed F polys pts then
        -- SPECIFICATION verdict, not the verification equation: the statement is false and the proof needs no trapdoor
        -- (W commits to an exact quotient: re-checked here), so the property demands rejection
        let f := padTo F (shTotal polys pts) (shF F polys pts y.proof.claimed (ch "gp"))
        let zt := vanishing F pts.flatten
        let q := divP F f zt
        if (subP F f (mulP F q zt)).all (· == 0) then "0" else "bad-op"
      else verdict (shVerify F y.g1 y.h0 y.h1 y.proof y.digests y.points (ch "gv") (ch "zv"))

def handleFflonk (r gen : Nat) (a : List String) : String :=
  let F := fp r
  let τ := parseHexD (kv a "tau") % r
  let n := parseHexD (kv a "n")
  let srs := powersFrom F τ n 1
  let nd := nextDivisor (r - 1)
  let root := rootOfUnity r gen
  let packs := (parseLLL (kv a "p")).map (·.map (·.map (· % r)))
  let packs2 := (parseLLL (kv a "p2")).map (·.map (·.map (· % r)))
  let pts := (parseLL (kv a "pts")).map (·.map (· % r))
  let ch (k : String) := parseHexD (kv a k) % r
  let m := ch "m"
  let i := parseHexD (kv a "i")
  let j := parseHexD (kv a "j")
  let k := parseHexD (kv a "k")
  let inst (packs : List (List (List Nat))) (γ z : Nat) : Option (FfProof Nat × List Nat) :=
    match (packs.map (ffFold F nd)).mapM (kzgCommit F srs), ffOpen F nd root srs packs pts γ z with
    | some d, some p => some (p, d)
    | _, _ => none
  match inst packs (ch "gp") (ch "zp") with
  | none => "err"
  | some (p, d) =>
    let other := if packs2.isEmpty then none else inst packs2 (ch "g2") (ch "z2")
    let o := other.getD (p, d)
    let ocv (f : Nat → Nat) : FfProof Nat :=
      { p with claimed := setAt p.claimed i (fun pk => setAt pk j (fun l => setAt l k f)) }
    let run (p : FfProof Nat) (d : List Nat) (pts : List (List Nat)) :=
      verdict (ffVerify F root 1 1 τ p d pts (ch "gv") (ch "zv"))
    match kv a "mut" with
    | "ocvSet" => run (ocv (fun _ => m)) d pts
    | "ocvAdd" => run (ocv (fun c => F.add c m)) d pts
    | "ocvZero" => run (ocv (fun _ => 0)) d pts
    | "ocvOther" => run (ocv (fun _ => (((o.1.claimed.getD i []).getD j []).getD k 0))) d pts
    | "ocvPair" =>
      -- targeted forgery: the outer value and the t inner values move together, the folding check still passes
      let t := (p.claimed.getD i []).length
      let ω := (root t).getD 0
      let x := (pts.getD i []).getD k 0
      let inner := setAt p.sh.claimed i (fun row =>
        (List.range row.length).map (fun idx =>
          let v := row.getD idx 0
          if idx / t = k then F.add v (F.mul m (npow F (F.mul x (npow F ω (idx % t))) j)) else v))
      run { (ocv (fun c => F.add c m)) with sh := { p.sh with claimed := inner } } d pts
    | "vanish" =>
      -- partial vanishing through the inner SHPLONK proof: the values move as in "ocvPair", W kept, W' := −F/z on the
      -- extended point sets for the verifier's challenges
      let t := (p.claimed.getD i []).length
      let ω := (root t).getD 0
      let x := (pts.getD i []).getD k 0
      let inner := setAt p.sh.claimed i (fun row =>
        (List.range row.length).map (fun idx =>
          let v := row.getD idx 0
          if idx / t = k then F.add v (F.mul m (npow F (F.mul x (npow F ω (idx % t))) j)) else v))
      let ext := (pts.zip p.claimed).map (fun (s, cv) => ffExtend F ((root cv.length).getD 0) cv.length s)
      let wp := shWPVanish r d ext inner p.sh.W (ch "gv") (ch "zv")
      run { (ocv (fun c => F.add c m)) with sh := { p.sh with claimed := inner, WPrime := wp } } d pts
    | "optSet" => run p d (setAt pts i (fun l => setAt l j (fun _ => m)))
    | "optAdd" => run p d (setAt pts i (fun l => setAt l j (fun c => F.add c m)))
    | _ =>
      -- inner (shplonk-level) mutations; the points of the inner instance are not used by ffVerify
      let x : ShInst := { proof := p.sh, digests := d, points := [], g1 := 1, h0 := 1, h1 := τ }
      let ox : Option ShInst := other.map (fun o => { proof := o.1.sh, digests := o.2, points := [], g1 := 1, h0 := 1, h1 := τ })
      match mutSh r a x ox τ (ch "gv") (ch "zv") with
      | none => "bad-op"
      | some y => verdict (ffVerify F root y.g1 y.h0 y.h1 { p with sh := y.proof } y.digests pts (ch "gv") (ch "zv"))

/-! ### permutation / plookup / mpcsetup -/

def handlePermutation (r : Nat) (a : List String) : String :=
  let F := fp r
  if kv a "proved" != "1" then "err" else
  let ch (k : String) := parseHexD (kv a k) % r
  if kv a "mut" == "consist" then
    -- CONSISTENT forgery for the prover-supplied (size, g) = (fm, fg): the line must describe a proof that passes the
    -- identity and both KZG checks (else the harness did not build what it claims); the verdict is the specification's
    let n := parseHexD (kv a "size")
    let g := ch "g"
    if n ≠ parseHexD (kv a "fm") ∨ g ≠ ch "fg" ∨ (kv a "pw2" == "1") ≠ isPow2 n then "bad-op" else
    if !(permIdentity F n ((parseL (kv a "cv")).map (· % r)) (ch "sv") (ch "eps") (ch "om") (ch "eta")
          && kv a "kb" == "1" && kv a "ks" == "1") then "bad-forge" else
    boolStr (permSpec F n g ((parseL (kv a "t1")).map (· % r)) ((parseL (kv a "t2")).map (· % r)))
  else
  boolStr (permVerify F (parseHexD (kv a "size")) (ch "g") ((parseL (kv a "cv")).map (· % r)) (ch "sv")
    (ch "eps") (ch "om") (ch "eta") (kv a "kb" == "1") (kv a "ks" == "1"))

def handlePlookup (r : Nat) (a : List String) : String :=
  let F := fp r
  if kv a "kind" == "table" then
    boolStr (plkTableVerify (kv a "cf" == "1") (kv a "perm" == "1") (kv a "bind" == "1") (kv a "vec" == "1"))
  else if kv a "proved" != "1" then "err" else
  let ch (k : String) := parseHexD (kv a k) % r
  if kv a "mut" == "consist" then
    -- CONSISTENT forgery for the prover-supplied (size, g) = (fm, fg): see handlePermutation
    let n := parseHexD (kv a "size")
    let g := ch "g"
    if n ≠ parseHexD (kv a "fm") ∨ g ≠ ch "fg" ∨ (kv a "pw2" == "1") ≠ isPow2 n then "bad-op" else
    if !(plkIdentity F n g ((parseL (kv a "cv")).map (· % r)) ((parseL (kv a "scv")).map (· % r)) (ch "beta") (ch "gamma")
          (ch "alpha") (ch "nu") && kv a "kb" == "1" && kv a "ks" == "1") then "bad-forge" else
    boolStr (plkSpec F n g ((parseL (kv a "f")).map (· % r)) ((parseL (kv a "t")).map (· % r)))
  else
  boolStr (plkVerify F (parseHexD (kv a "size")) (ch "g") ((parseL (kv a "cv")).map (· % r))
    ((parseL (kv a "scv")).map (· % r)) (ch "beta") (ch "gamma") (ch "alpha") (ch "nu") (kv a "kb" == "1") (kv a "ks" == "1"))

def swapAt {β : Type} (l : List β) (i j : Nat) (d : β) : List β :=
  setAt (setAt l i (fun _ => l.getD j d)) j (fun _ => l.getD i d)

def handleMpc (r : Nat) (a : List String) : String :=
  let F := fp r
  let ch (k : String) := parseHexD (kv a k) % r
  let m := ch "m"
  let i := parseHexD (kv a "i")
  match kv a "kind" with
  | "chain" => boolStr (decide (2 ≤ parseHexD (kv a "n")))   -- honest chain: accepted (theorem C17a_mpc_complete)
  | "step" =>
    let n := parseHexD (kv a "n")
    let t0 := ch "t0"
    let x := ch "x"
    let t1 := F.mul t0 x
    let prevG1 := powersFrom F t0 n 1
    let g1 := powersFrom F t1 n 1
    let honest : UpdProof Nat := { com := x, pokx := x, pokKnown := true }
    let run (g1 : List Nat) (g2 : Nat) (p : UpdProof Nat) (chalOk : Bool) :=
      boolStr (mpcVerify F false prevG1 t0 g1 g2 p chalOk)
    let flag (k : String) : Bool := parseHexD (kv a k) != 0
    match kv a "mut" with
    | "none" => run g1 t1 honest true
    | "nosub" =>
      -- membership flags of every element of the contribution (the harness adds a point of cofactor order where the flag is 0)
      let sub1 := (parseL (kv a "sub1")).map (· != 0)
      if sub1.length + 1 ≠ n then "bad-op" else
      boolStr (mpcVerifySub F sub1 (flag "sub2") (flag "subc") (flag "subp") prevG1 t0 g1 t1 honest true)
    | "g1Set" => run (setAt g1 i (fun _ => m)) t1 honest true
    | "g1Add" => run (setAt g1 i (fun c => F.add c m)) t1 honest true
    | "g1Zero" => run (setAt g1 i (fun _ => 0)) t1 honest true
    | "g1Other" => run (powersFrom F m n 1) t1 honest true
    | "g1Swap" => run (swapAt g1 1 (n - 1) 0) t1 honest true
    | "g2Set" => run g1 m honest true
    | "srsOther" => run (powersFrom F (F.mul t0 m) n 1) (F.mul t0 m) honest true
    | "comSet" => run g1 t1 { honest with com := m, pokKnown := false } true
    | "comZero" => run g1 t1 { honest with com := 0, pokKnown := false } true
    | "pokSet" => run g1 t1 { honest with pokKnown := false } true
    | "pokOther" => run g1 t1 { honest with pokx := m } true
    | "proofOther" => run g1 t1 { com := m, pokx := m, pokKnown := true } true
    | "chal" => run g1 t1 honest false
    | "sizeUp" => run (powersFrom F t1 (n + 1) 1) t1 honest true
    | "sizeDown" => run (powersFrom F t1 (n - 1) 1) t1 honest true
    | _ => "bad-op"
  | "update" =>
    let as := (parseL (kv a "a")).map (· % r)
    let bs := (parseL (kv a "b")).map (· % r)
    let x := ch "x"
    let n1 := as.map (F.mul x)
    let n2 := bs.map (F.mul x)
    let honest : UpdProof Nat := { com := x, pokx := x, pokKnown := true }
    let run (p : UpdProof Nat) (n1 n2 : List Nat) := boolStr (updVerify F p as n1 bs n2)
    match kv a "mut" with
    | "none" => run honest n1 n2
    | "nosub" => boolStr (updVerifySub F (parseHexD (kv a "subc") != 0) (parseHexD (kv a "subp") != 0) honest as n1 bs n2)
    | "n1Set" => run honest (setAt n1 i (fun _ => m)) n2
    | "n1Scale" => run honest (setAt n1 i (F.mul m)) n2
    | "n2Set" => run honest n1 (setAt n2 i (fun _ => m))
    | "n2Scale" => run honest n1 (setAt n2 i (F.mul m))
    | "allScale" => run honest (n1.map (F.mul m)) (n2.map (F.mul m))
    | "n1Swap" => run honest (swapAt n1 0 (n1.length - 1) 0) n2
    | "n1Cancel" => run honest (setAt (setAt n1 i (fun c => F.add c m)) ((i + 1) % n1.length) (fun c => F.sub c m)) n2
    | "n2Cancel" => run honest n1 (setAt (setAt n2 i (fun c => F.add c m)) ((i + 1) % n2.length) (fun c => F.sub c m))
    | "chal" => run { honest with pokKnown := false } n1 n2
    | "dst" => run { honest with pokKnown := false } n1 n2
    | "proofOther" => run { com := m, pokx := m, pokKnown := true } n1 n2
    | _ => "bad-op"
  | "ratio" =>
    boolStr (sameRatioMany F ((parseLL (kv a "g1")).map (·.map (· % r))) ((parseLL (kv a "g2")).map (·.map (· % r))))
  | _ => "bad-op"

/-- the schemes of the tag `C17` answered by this model (the hash-based half answers `fri`, `vortex`) -/
def schemes : List String := ["pedersen", "shplonk", "fflonk", "permutation", "plookup", "mpcsetup"]

def handle (args : List String) : String :=
  match args with
  | scheme :: curve :: rest =>
    match curveInfo curve with
    | none => "bad-op"
    | some (r, gen) =>
      match scheme, rest with
      | "pedersen", "single" :: a => handlePedSingle r a
      | "pedersen", "batch" :: a => handlePedBatch r a
      | "shplonk", a => handleShplonk r a
      | "fflonk", a => handleFflonk r gen a
      | "permutation", a => handlePermutation r a
      | "plookup", a => handlePlookup r a
      | "mpcsetup", a => handleMpc r a
      | _, _ => "bad-op"
  | _ => "bad-op"

end GV.ArgPairing
