import GnarkVerif.Model.Conv
/-
C08_gen (tie T for the byte <-> limb conversions) — conventions of the generated files `Gen/Bytes/<Field>.lean`.

`tools/goslp/bytes.go` translates `bigEndian.Element / PutElement`, `littleEndian.Element / PutElement`, `Element.Bytes`,
`SetBytesCanonical`, `SetBytes`, `Bits`, `Uint64`, `IsUint64`, `FitsOnOneWord`, `SetUint64`, `toMont` of the 23 field packages into
`let`-chains; a Go byte array `[Bytes]byte` (and a `[]byte`) is a `List UInt8`, a word is the `Nat` it denotes (as in Model/Limb.lean):

* `(*b)[i:j]`                                   ↦ `slice b i j`          (bounds exactly as written in the Go text)
* `binary.BigEndian.Uint64(s)` / `Uint32(s)`    ↦ `beUint 8 s` / `beUint 4 s`   (the first 8 / 4 bytes of `s`, most significant first)
* `binary.LittleEndian.Uint64(s)` / `Uint32(s)` ↦ `leUint 8 s` / `leUint 4 s`
* `binary.BigEndian.PutUint64((*b)[i:j], w)`    ↦ `b := putSlice b i j (Conv.natToBE 8 w)`   (`natToLE` for LittleEndian, 4 for 32 bits)
* `(*[Bytes]byte)(e)`                           ↦ `toArray Bytes e`      (Go panics when `len(e) < Bytes`; the callers test `len(e) == Bytes`)
* `error` values: `nil` ↦ 0, `errInvalidEncoding` ↦ 1, `errors.New(…)` ↦ 2;   `len(e)` ↦ `e.length`
* the slow path of `SetBytes` (`big.Int.SetBytes` then `SetBigInt`) ↦ the PARAMETER `setBigIntBE e`
* calls of `Mul`, `_fromMontGeneric`, `smallerThanModulus`, `montReduce` ↦ the definitions of `Gen/Limb/<Field>.lean` of the same run.
Core-only.
-/
namespace GV.Bytes

/-- `b[i:j]` -/
def slice (b : List UInt8) (i j : Nat) : List UInt8 := (b.drop i).take (j - i)

/-- `binary.BigEndian.UintN(s)` with `N = 8·k`: value of the first `k` bytes, most significant first -/
def beUint (k : Nat) (s : List UInt8) : Nat := GV.Conv.beToNat (s.take k)

/-- `binary.LittleEndian.UintN(s)` -/
def leUint (k : Nat) (s : List UInt8) : Nat := GV.Conv.leToNat (s.take k)

/-- the array `b` after the bytes `w` were stored at the beginning of `b[i:j]` -/
def putSlice (b : List UInt8) (i j : Nat) (w : List UInt8) : List UInt8 :=
  b.take i ++ (w ++ (slice b i j).drop w.length) ++ b.drop j

/-- `(*[n]byte)(e)` -/
def toArray (n : Nat) (e : List UInt8) : List UInt8 := e.take n

end GV.Bytes
