import GnarkVerif.Model.Util
/-
C18 — abstract machines for "pure, repeatable, safe to run concurrently".

* `Step / Task / Interleave` : shared-memory machine with atomic steps; an interleaving of k tasks is any merge of
  their step lists that preserves each task's own order (fork–join, as produced by `parallel.Execute` + `wg.Wait`).
* `executeRanges` : the `[start,end)` ranges computed by /repo/internal/parallel/execute.go (clamping of the
  optional `maxCpus`, the "more CPUs than iterations" branch, the `extraTasks` spreading loop), literally.
* `Once…` : `sync.Once.Do` (fast path load, mutex, second check, `f()`, store done, unlock) as a small-step machine over
  an unbounded family of threads; plus the atomic abstraction `onceDo`.
* `Pool…` : `sync.Pool` whose `Get` returns an arbitrary previously `Put` object (or a fresh one).

Only Lean core is imported (this file is linked into the driver).
-/
namespace GV.ForkJoin

abbrev Val := Nat
/-- memory: cell id ↦ value -/
abbrev State := Nat → Val

/-- one atomic step: read the cells `reads`, write `f (values read)` into cell `write` -/
structure Step where
  reads : List Nat
  write : Nat
  f : List Val → Val

abbrev Task := List Step

def Step.run (s : Step) (σ : State) : State :=
  fun c => if c = s.write then s.f (s.reads.map σ) else σ c

def runSteps : List Step → State → State
  | [], σ => σ
  | s :: l, σ => runSteps l (s.run σ)

/-- sequential execution t₁; t₂; …; t_k -/
def runSeq (ts : List Task) (σ : State) : State := runSteps ts.flatten σ

def writes (t : Task) : List Nat := t.map (·.write)
def readsOf (t : Task) : List Nat := t.flatMap (·.reads)

/-- `Interleave ts l` : `l` is a merge of the step lists `ts` preserving the order inside every task.
At each point any task with a remaining step may be scheduled. -/
inductive Interleave : List Task → List Step → Prop
  | done (ts : List Task) (h : ∀ t ∈ ts, t = []) : Interleave ts []
  | step (pre : List Task) (s : Step) (t : Task) (post : List Task) (l : List Step)
      (h : Interleave (pre ++ t :: post) l) : Interleave (pre ++ (s :: t) :: post) (s :: l)

/-- write set of `t` disjoint from write set and read set of `u`, and write set of `u` disjoint from read set of `t` -/
def TaskIndep (t u : Task) : Prop :=
  (∀ c ∈ writes t, c ∉ writes u ∧ c ∉ readsOf u) ∧ (∀ c ∈ writes u, c ∉ readsOf t)

/-- pairwise independence of a family of tasks -/
def Independent (ts : List Task) : Prop := ts.Pairwise TaskIndep

/-! ### parallel.Execute -/

/-- the loop `for i := 0; i < nbTasks; i++ { … }` of execute.go; `k` = iterations still to do -/
def executeLoop (per : Nat) : Nat → Nat → Nat → Nat → List (Nat × Nat)
  | 0, _, _, _ => []
  | k+1, i, extra, off =>
    let start := i * per + off
    if extra > 0 then (start, start + per + 1) :: executeLoop per k (i+1) (extra - 1) (off + 1)
    else (start, start + per) :: executeLoop per k (i+1) extra off

/-- clamping of the optional argument: `<1 → 1`, `>512 → 512` (argument given as a Nat, so `<1` is `0`) -/
def clampTasks (nb : Nat) : Nat := if nb < 1 then 1 else if nb > 512 then 512 else nb

/-- the ranges handed to `work` by `Execute(n, work, nb)` after clamping (for `n ≥ 0`) -/
def executeRangesClamped (n nbTasks : Nat) : List (Nat × Nat) :=
  if nbTasks = 1 then [(0, n)]
  else
    let per := n / nbTasks
    let per' := if per < 1 then 1 else per
    let nb' := if per < 1 then n else nbTasks
    let extra := n - nb' * per'
    executeLoop per' nb' 0 extra 0

def executeRanges (n nbTasks : Nat) : List (Nat × Nat) := executeRangesClamped n (clampTasks nbTasks)

/-- index list of a range -/
def rangeIdx (r : Nat × Nat) : List Nat := List.range' r.1 (r.2 - r.1)

/-- `ranges` tile `[0,n)`: concatenating them in order enumerates 0,1,…,n-1 exactly once -/
def Tiles (ranges : List (Nat × Nat)) (n : Nat) : Prop := ranges.flatMap rangeIdx = List.range n

/-- a data-parallel kernel: iteration `j` writes cell `out j` from the cells `ins j` -/
structure Kernel where
  out : Nat → Nat
  ins : Nat → List Nat
  f : Nat → List Val → Val

def Kernel.step (K : Kernel) (j : Nat) : Step := ⟨K.ins j, K.out j, K.f j⟩
/-- the task `work(start,end)` -/
def Kernel.task (K : Kernel) (r : Nat × Nat) : Task := (rangeIdx r).map K.step

/-! ### sync.Once -/

/-- atomic abstraction: `Do(init)` on the guarded table -/
def onceDo {α : Type} (init : Unit → α) (tbl : Option α) : Option α × α :=
  match tbl with
  | none => let v := init (); (some v, v)
  | some v => (some v, v)

/-- run a history of `Do` calls (each caller may pass its own `init`), collect what each caller observes -/
def onceRun {α : Type} : List (Unit → α) → Option α → Option α × List α
  | [], tbl => (tbl, [])
  | i :: is, tbl =>
    let (tbl', v) := onceDo i tbl
    let (tbl'', vs) := onceRun is tbl'
    (tbl'', v :: vs)

/-- program counter of a thread inside `once.Do(f)` followed by a read of the guarded table -/
inductive PC (α : Type)
  | start      -- `if o.done.Load() == 0 { o.doSlow(f) }`
  | wantLock   -- `o.m.Lock()`
  | locked     -- `if o.done.Load() == 0 {`
  | running    -- `f()`  (writes the table)
  | setDone    -- `defer o.done.Store(1)`
  | unlock     -- `defer o.m.Unlock()`
  | ret        -- Do returned; the caller reads the table
  | finished (v : Option α)  -- the caller has observed `v`

structure OnceSt (α : Type) where
  done : Bool
  mutex : Option Nat
  table : Option α
  nwrites : Nat
  pc : Nat → PC α

def OnceSt.setPc {α} (s : OnceSt α) (t : Nat) (p : PC α) : OnceSt α :=
  { s with pc := fun u => if u = t then p else s.pc u }

def onceInit (α : Type) : OnceSt α := ⟨false, none, none, 0, fun _ => .start⟩

/-- thread `t` takes one atomic step (a blocked or finished thread leaves the state unchanged);
`init t` is the value the function passed by thread `t` would store -/
def onceStep {α} (init : Nat → α) (s : OnceSt α) (t : Nat) : OnceSt α :=
  match s.pc t with
  | .start => if s.done then s.setPc t .ret else s.setPc t .wantLock
  | .wantLock => match s.mutex with
      | none => { s with mutex := some t }.setPc t .locked
      | some _ => s
  | .locked => if s.done then s.setPc t .unlock else s.setPc t .running
  | .running => { s with table := some (init t), nwrites := s.nwrites + 1 }.setPc t .setDone
  | .setDone => { s with done := true }.setPc t .unlock
  | .unlock => { s with mutex := none }.setPc t .ret
  | .ret => s.setPc t (.finished s.table)
  | .finished _ => s

/-- a schedule is any list of thread ids -/
def onceSched {α} (init : Nat → α) : List Nat → OnceSt α → OnceSt α
  | [], s => s
  | t :: l, s => onceSched init l (onceStep init s t)

/-! ### sync.Pool -/

abbrev Buf := List Val

/-- `Get`: the scheduler/GC (`choice`) decides which previously `Put` object is handed out, or a fresh one -/
def poolGet (fresh : Buf) (pool : List Buf) (choice : Nat) : Buf × List Buf :=
  if choice < pool.length then (pool.getD choice fresh, pool.eraseIdx choice) else (fresh, pool)

/-- a pooled-scratch user: from its input and the scratch object it got, its output and the object it puts back -/
abbrev PoolUser (ι ο : Type) := ι → Buf → ο × Buf

/-- history of calls `(input, choice)`; every call does `Get`, runs, `Put` -/
def poolRun {ι ο : Type} (fresh : Buf) (u : PoolUser ι ο) : List (ι × Nat) → List Buf → List ο
  | [], _ => []
  | (x, ch) :: l, pool =>
    let (b, pool') := poolGet fresh pool ch
    let (o, b') := u x b
    o :: poolRun fresh u l (b' :: pool')

/-- "every read of a cell is preceded by a write of that cell, except for the cells `D` that are known inputs":
syntactic check on a straight-line program over the machine above -/
def initBeforeRead : List Nat → List Step → Bool
  | _, [] => true
  | D, s :: l => s.reads.all (fun c => D.contains c) && initBeforeRead (s.write :: D) l

/-- a pooled-scratch user given by a straight-line program on the machine above: the scratch object occupies the cells
`[0,n)`, the call's input `x` is loaded in the cells `n+i`; the output is the final content of the cells `outs`;
the object put back is the final content of `[0,n)` -/
def progUser (n : Nat) (prog : List Step) (outs : List Nat) : PoolUser (List Val) (List Val) :=
  fun x b =>
    let σ0 : State := fun c => if c < n then b.getD c 0 else x.getD (c - n) 0
    let σ1 := runSteps prog σ0
    (outs.map σ1, (List.range n).map σ1)

/-! ### line protocol -/

def entries : List String :=
  ["pairfixedq", "millerloopfixedq", "pairingcheckfixedq", "pair", "kzgverify", "kzgbatchverify", "kzgopen", "kzgcommit",
   "kzgbatchopen", "multiexp", "fft", "mimc", "poseidon2", "sis", "batchscalarmul", "batchjactoaff", "iop", "vector", "codec",
   "edwards", "polypool", "mdhasher",
   "plookupvec", "plookuptab", "permutation", "fri", "shplonk", "fflonk", "pedersen", "iopratio", "kzglagrange", "polynomial",
   "vortex", "merkle", "scalarexp", "hashto"]

/-- entry points that switch to a goroutine / `parallel.Execute` implementation above some size: the `C18 par` lines run
them above that size (same list as `c18ParEntries` in the harness) -/
def parEntries : List String :=
  ["kzgopen", "kzgcommit", "kzgbatchopen", "multiexp", "fft", "sis", "batchscalarmul", "batchjactoaff", "iop", "vector",
   "codec", "plookupvec", "plookuptab", "permutation", "fri", "shplonk", "fflonk", "pedersen", "iopratio", "kzglagrange",
   "polynomial", "vortex", "merkle"]

def curves : List String :=
  ["bn254", "bls12-377", "bls12-381", "bls24-315", "bls24-317", "bw6-633", "bw6-761"]

def smallFields : List String := ["koalabear", "babybear", "goldilocks"]

/-- packages outside the pairing-curve template -/
def g1Curves : List String := ["secp256k1", "grumpkin", "stark-curve"]

/-- which (entry, curve/field) pairs exist in the library (same table as `c18Supported` in the harness) -/
def supported (e c : String) : Bool :=
  entries.contains e &&
    (if e == "scalarexp" then curves.contains c || smallFields.contains c || g1Curves.contains c || c == "bandersnatch"
     else if e == "hashto" then curves.contains c || smallFields.contains c || g1Curves.contains c
     else if e == "sis" then c == "bls12-377" || smallFields.contains c
     else if e == "poseidon2" || e == "fft" then curves.contains c || smallFields.contains c
     else if e == "vortex" || e == "merkle" then c == "koalabear"
     else curves.contains c)

def parSupported (e c : String) : Bool := parEntries.contains e && supported e c

/-- lazily initialised globals and the packages that have them (same table as `c18FreshSupported` in the harness) -/
def freshSupported (g c : String) : Bool :=
  if g == "mimc" || g == "lagrange" then curves.contains c || c == "grumpkin"
  else if g == "poseidon2" then curves.contains c || smallFields.contains c || c == "grumpkin"
  else if g == "edwards" then curves.contains c || c == "bandersnatch"
  else if g == "bigintpool" then curves.contains c
  else false

def showRanges (l : List (Nat × Nat)) : String :=
  if l.isEmpty then "-" else " ".intercalate (l.map fun r => toHex r.1 ++ ":" ++ toHex r.2)

def hexIn (s : String) (lo hi : Nat) : Option Nat :=
  match parseHex s with
  | some v => if lo ≤ v && v ≤ hi then some v else none
  | none => none

/-- `C18 <entry> <curve> <k> <goroutines> <gomaxprocs> <seed>` : the model of every entry point is a function of the
values of its arguments, hence pure, repeatable and schedule independent: all three bits are 1.
`C18 fresh <global> <package> <goroutines> <children> <seed>` : the first use of a lazily initialised global, made
concurrently in fresh processes: the `Once` model runs the initialiser exactly once before any reader proceeds, so every
caller obtains the value of the initialised state: the same three bits.
`C18 par <entry> <curve> <k> <goroutines> <gomaxprocs> <seed>` : the entry point above the size threshold of its parallel
implementation, compared with its run on one processor: the workers of the fork-join write disjoint cells and read none of
them (`C18_execute_kernel`), so the result is the sequential one under every schedule and every number of processors: the
same three bits.
`C18 ranges <n> <nbTasks>` : the ranges of `parallel.Execute`. -/
def handle : List String → String
  | ["ranges", n, nb] =>
    match hexIn n 0 (2^30), hexIn nb 0 (2^30) with
    | some n, some nb => showRanges (executeRanges n nb)
    | _, _ => "err:args"
  | ["fresh", gl, c, g, n, seed] =>
    if freshSupported gl c && (hexIn g 1 64).isSome && (hexIn n 1 200).isSome && (hexIn seed 0 (2^64 - 1)).isSome
    then "pure=1 same=1 conc=1" else "err:args"
  | ["par", e, c, k, g, p, seed] =>
    if parSupported e c && (hexIn k 1 0x200).isSome && (hexIn g 0 64).isSome && (hexIn p 2 64).isSome &&
       (hexIn seed 0 (2^64 - 1)).isSome
    then "pure=1 same=1 conc=1" else "err:args"
  | [e, c, k, g, p, seed] =>
    if supported e c && (hexIn k 1 8).isSome && (hexIn g 0 64).isSome && (hexIn p 1 64).isSome &&
       (hexIn seed 0 (2^64 - 1)).isSome
    then "pure=1 same=1 conc=1" else "err:args"
  | _ => "err:args"

end GV.ForkJoin
