import GnarkVerif.Model.Util
import GnarkVerif.Gen.Fields
/-
C14 — executable model of the MiMC hashes (`ecc/<curve>/fr/mimc/mimc.go`, 8 instances, one template).

* `encrypt k m` : `nbRounds` rounds `m ← (m + k + cᵢ)^d`, then `+ k`; the S-box is computed with the
  addition chain of the Go code (`sbox`), its mathematical definition is `sboxSpec = t^d`;
  the round constants (iterated Keccak of the seed) and the exponent are parameters (`Params`).
* Miyaguchi–Preneel: `h ← E_h(m) + h + m`, folded over the blocks (`mp`).
* `Digest` is the step machine `(h, data)` of the Go `digest`: `Write` only buffers decoded blocks,
  `Sum` / `State` fold them into `h` and flush, `Reset`, `SetState`.
  `Write` follows the PROPERTY where the Go code deviates from it: the whole input is validated first
  (length a multiple of BlockSize after the documented left-padding of short writes, every block < q);
  on failure the state is unchanged; the model has no notion of capacity (bytes beyond `len p` do not exist).
-/
namespace GV.MiMC

abbrev Bytes := List UInt8

structure Params where
  q : Nat
  d : Nat              -- S-box exponent: 5, 7 or 17
  size : Nat           -- BlockSize = fr.Bytes
  consts : List Nat    -- round constants (`GetConstants()`)
  le : Bool := false   -- `WithByteOrder(fr.LittleEndian)`

/-- `Nat` → exactly `len` big-endian bytes (structural version of `natToBE`) -/
def encBE : Nat → Nat → Bytes
  | 0, _ => []
  | len+1, n => encBE len (n / 256) ++ [UInt8.ofNat (n % 256)]

/-- S-box as computed by the Go code (Square/Mul chains) -/
def sbox (P : Params) (t : Nat) : Nat :=
  let q := P.q
  if P.d = 5 then
    let m := t * t % q; let m := m * m % q; m * t % q
  else if P.d = 7 then
    let t2 := t * t % q; let m := t2 * t2 % q; let m := m * t2 % q; m * t % q
  else if P.d = 17 then
    let m := t * t % q; let m := m * m % q; let m := m * m % q; let m := m * m % q; m * t % q
  else t ^ P.d % q

/-- S-box, mathematical definition -/
def sboxSpec (P : Params) (t : Nat) : Nat := t ^ P.d % P.q

/-- one round `m ← (m + k + c)^d` -/
def round (P : Params) (k m c : Nat) : Nat := sbox P (((m + k) % P.q + c) % P.q)

def roundSpec (P : Params) (k m c : Nat) : Nat := sboxSpec P ((m + k + c) % P.q)

/-- `E_k(m)` as the Go `encrypt` -/
def encrypt (P : Params) (k m : Nat) : Nat := (P.consts.foldl (round P k) m + k) % P.q

/-- `E_k(m)`, specification -/
def encryptSpec (P : Params) (k m : Nat) : Nat := (P.consts.foldl (roundSpec P k) m + k) % P.q

/-- Miyaguchi–Preneel compression `h ← E_h(m) + h + m` (as `checksum`: `Add(&r,&h).Add(&h,&m)`) -/
def compress (P : Params) (h m : Nat) : Nat := ((encrypt P h m + h) % P.q + m) % P.q

def compressSpec (P : Params) (h m : Nat) : Nat := (encryptSpec P h m + h + m) % P.q

/-- Miyaguchi–Preneel over a list of blocks, from chaining value `h` -/
def mp (P : Params) (h : Nat) (ms : List Nat) : Nat := ms.foldl (compress P) h

def mpSpec (P : Params) (h : Nat) (ms : List Nat) : Nat := ms.foldl (compressSpec P) h

/-! ### bytes ↔ blocks -/

/-- value of one block (`byteOrder.Element`) -/
def decBlock (P : Params) (b : Bytes) : Nat := if P.le then beToNat b.reverse else beToNat b

/-- a byte string that is a sequence of canonical field elements ↦ these elements; `none` otherwise
(length not a multiple of `size`, or some block ≥ q) -/
def decodeBlocks (P : Params) (p : Bytes) : Option (List Nat) :=
  if _hp : p = [] then some []
  else if _hs : 0 < P.size ∧ P.size ≤ p.length then
    let v := decBlock P (p.take P.size)
    if v < P.q then (decodeBlocks P (p.drop P.size)).map (v :: ·) else none
  else none
termination_by p.length
decreasing_by simp only [List.length_drop]; omega

/-- short writes (0 < len < BlockSize) are left-padded with zeros, as the Go code does -/
def pad (P : Params) (p : Bytes) : Bytes :=
  if 0 < p.length ∧ p.length < P.size then List.replicate (P.size - p.length) 0 ++ p else p

/-! ### the digest as a step machine -/

structure Digest where
  h : Nat := 0
  data : List Nat := []
deriving Repr, DecidableEq

inductive Op
  | write (p : Bytes)
  | sum (b : Bytes)
  | reset
  | state
  | setState (s : Bytes)
deriving Repr, DecidableEq

inductive Out
  | wrote (n : Nat)     -- Write returned (n, nil)
  | err                 -- Write / SetState returned an error
  | bytes (v : Bytes)   -- Sum / State
  | unit                -- Reset, successful SetState
deriving Repr, DecidableEq

def init : Digest := {}

/-- `checksum`: fold the buffered blocks into `h`, flush -/
def flush (P : Params) (s : Digest) : Digest := { h := mp P s.h s.data, data := [] }

def step (P : Params) (s : Digest) : Op → Digest × Out
  | .write p =>
    match decodeBlocks P (pad P p) with
    | some xs => ({ s with data := s.data ++ xs }, .wrote (pad P p).length)
    | none => (s, .err)
  | .sum b =>
    let s' := flush P s
    (s', .bytes (b ++ encBE P.size s'.h))
  | .reset => ({}, .unit)
  | .state =>
    let s' := flush P s
    (s', .bytes (encBE P.size s'.h))
  | .setState st =>
    if st.length = P.size ∧ beToNat st < P.q then ({ h := beToNat st, data := [] }, .unit)
    else (s, .err)

def run (P : Params) (s : Digest) : List Op → Digest × List Out
  | [] => (s, [])
  | op :: ops =>
    let (s', o) := step P s op
    let (s'', os) := run P s' ops
    (s'', o :: os)

/-! ### line protocol
`C14 mimc <ctor> <curve> <c0,c1,…> <op> <op> … | <op> … | …`
`ctor` ∈ new | reg | le | fn; modulus and block size of `<curve>` come from Gen/Fields.lean (extracted from /repo),
exponent and number of rounds from `instances` (transcribed from the 8 mimc.go); the round constants travel on the
line (the Go side refuses the line unless they equal `GetConstants()`); histories are separated by `|`, each starts from a fresh hasher.
op = `W:<hex>[:<spare>]` (spare = poisoned capacity beyond len, ignored by the model) | `S:<hex>[:d<dirt>]` (dirt = garbage in
   the spare capacity of the destination, ignored by the model) | `R` | `T` (State)
   | `U:<hex>` (SetState); `S`/`T`/`U` may end in `:m` = the caller overwrites the slice handed out/in afterwards
   (ignored by the by-value model) | `V` (SetState(State()) on a fresh second hasher, which then replaces the first). -/

def outStr : Out → String
  | .wrote n => "ok:" ++ toHex n
  | .err => "err"
  | .bytes v => bytesToHex v
  | .unit => "ok"

def parseOp (tok : String) : Option (List Op) :=
  match tok.splitOn ":" with
  | ["W", p] => some [.write (parseBytes p)]
  | ["W", p, _] => some [.write (parseBytes p)]
  | ["S", b] => some [.sum (parseBytes b)]
  | ["S", b, x] => if x == "m" || x.startsWith "d" then some [.sum (parseBytes b)] else none
  | ["S", b, x, "m"] => if x.startsWith "d" then some [.sum (parseBytes b)] else none
  | ["R"] => some [.reset]
  | ["T"] => some [.state]
  | ["T", "m"] => some [.state]
  | ["U", s] => some [.setState (parseBytes s)]
  | ["U", s, "m"] => some [.setState (parseBytes s)]
  | _ => none

/-- one token of a history on any hasher given as a step machine (`stp`, fresh state `ini`);
`V`: save the state, restore it into a brand-new hasher and continue with that one -/
def runTokG {σ : Type} (stp : σ → Op → σ × Out) (ini : σ) (s : σ) (tok : String) : σ × String :=
  if tok == "V" then
    let (s1, o) := stp s .state
    match o with
    | .bytes st =>
      let (s2, o2) := stp ini (.setState st)
      (if o2 == .unit then s2 else s1, outStr o2)
    | _ => (s1, "err")
  else
    match parseOp tok with
    | some [op] => let (s', o) := stp s op; (s', outStr o)
    | _ => (s, "bad-op")

def runToksG {σ : Type} (stp : σ → Op → σ × Out) (ini : σ) : σ → List String → List String
  | _, [] => []
  | s, t :: ts => let (s', o) := runTokG stp ini s t; o :: runToksG stp ini s' ts

def splitOnBar (ws : List String) : List (List String) :=
  let (acc, cur) := ws.foldl (fun (acc, cur) w => if w == "|" then (cur.reverse :: acc, []) else (acc, w :: cur)) ([], [])
  (cur.reverse :: acc).reverse

/-- all histories of a line, each from a fresh hasher -/
def runLine {σ : Type} (stp : σ → Op → σ × Out) (ini : σ) (toks : List String) : String :=
  " | ".intercalate ((splitOnBar toks).map (fun h => " ".intercalate (runToksG stp ini ini h)))

def parseList (s : String) : List Nat := if s == "-" then [] else (s.splitOn ",").map parseHexD

/-- (curve, field package, S-box exponent, mimcNbRounds) — read from `ecc/<curve>/fr/mimc/mimc.go` -/
def instances : List (String × String × Nat × Nat) :=
  [("bn254", "bn254_fr", 5, 110), ("bls12-381", "bls12_381_fr", 5, 111), ("bls12-377", "bls12_377_fr", 17, 62),
   ("bw6-761", "bw6_761_fr", 5, 163), ("bls24-315", "bls24_315_fr", 5, 109), ("bls24-317", "bls24_317_fr", 7, 91),
   ("bw6-633", "bw6_633_fr", 5, 136), ("grumpkin", "grumpkin_fr", 5, 110)]

def paramsOf (curve : String) (consts : List Nat) (le : Bool) : Option Params := do
  let (_, fname, d, nb) ← instances.find? (·.1 == curve)
  let fc ← Gen.allFields.find? (·.name == fname)
  if consts.length ≠ nb ∨ consts.any (· ≥ fc.q) then none
  else some { q := fc.q, d := d, size := fc.bytes, consts := consts, le := le }

def handle (args : List String) : String :=
  match args with
  | ctor :: curve :: cs :: rest =>
    match paramsOf curve (parseList cs) (ctor == "le") with
    | none => "bad-consts"
    | some P =>
    if ctor == "regsize" then
      -- `hash.Hash.Size()` of the registry id, `Size()` of the hasher it constructs, length of the digest of the empty
      -- message: all three are the length of the model's `Sum(nil)` on a fresh hasher
      match rest, (step P init (.sum [])).2 with
      | [], .bytes v => let n := toHex v.length; s!"{n} {n} {n}"
      | _, _ => "bad-op"
    else if ctor == "fn" then
      -- package-level `mimc.Sum(msg)`: one message per token
      " ".intercalate (rest.map (fun m => match decodeBlocks P (pad P (parseBytes m)) with
        | some xs => bytesToHex (encBE P.size (mp P 0 xs))
        | none => "err"))
    else
    " | ".intercalate ((splitOnBar rest).map (fun h => " ".intercalate (runToksG (step P) init init h)))
  | _ => "bad-op"

end GV.MiMC
