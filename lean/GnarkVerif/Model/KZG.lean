import GnarkVerif.Model.Util
import GnarkVerif.Model.FieldOps
/-
C11 — KZG in the "known-trapdoor exponent model" (ecc/<curve>/kzg/kzg.go, identical on the 7 pairing curves).

Every group element is its discrete logarithm modulo the scalar-field modulus `r`:
  G1 ≅ G2 ≅ GT ≅ ℤ/r,   [s]P ↦ s·P,   e(P,Q) ↦ P·Q,   PairingCheck(Pᵢ,Qᵢ) ↦ (Σ Pᵢ·Qᵢ ≡ 0 mod r),
  MultiExp ↦ Σ sᵢ·Pᵢ,   JointScalarMultiplication(P₁,P₂,s₁,s₂) ↦ s₁P₁+s₂P₂,   generators ↦ 1.
Scalars and points are `Nat`s, all arithmetic is explicit `% r`. The functions follow the Go code statement by
statement (the two loops `eval` and `dividePolyByXminusA` are written with the Go indices on `List.getD/List.set`).

One deliberate deviation (the property demands it, see `commitQuotient`): for a polynomial of length 1 the quotient is
the empty slice; the Go `Open`/`BatchOpenSinglePoint` hand it to `Commit`, which answers ErrInvalidPolynomialSize;
the model commits the empty quotient to the identity (H = O), as completeness for constants requires.
-/
namespace GV.KZG

/-! ### scalar field / exponent arithmetic -/
def addm (r a b : Nat) : Nat := (a + b) % r
def subm (r a b : Nat) : Nat := (a + (r - b % r)) % r
def negm (r a : Nat) : Nat := (r - a % r) % r
def mulm (r a b : Nat) : Nat := (a * b) % r

inductive Err where
  | polySize      -- ErrInvalidPolynomialSize
  | srsSize       -- ErrMinSRSSize
  | nbDigests     -- ErrInvalidNbDigests
  | zeroDigests   -- ErrZeroNbDigests
  | panic         -- index out of range in the Go code
  deriving DecidableEq, Repr

def Err.show : Err → String
  | .polySize => "err:polysize" | .srsSize => "err:srssize" | .nbDigests => "err:nbdigests"
  | .zeroDigests => "err:zerodigests" | .panic => "panic"

/-! ### eval : Horner loop of kzg.go `eval` -/

/-- `for i := n-2; i >= 0; i-- { res = res*point + p[i] }` ; the last argument is `i+1` -/
def evalLoop (r x : Nat) (p : List Nat) (res : Nat) : Nat → Nat
  | 0 => res
  | i+1 => evalLoop r x p (addm r (mulm r res x) (p.getD i 0)) i

/-- `res.Set(&p[n-1])` then the loop (callers guarantee `n ≥ 1`; for `n = 0` Go panics, the model returns 0) -/
def eval (r : Nat) (p : List Nat) (x : Nat) : Nat :=
  evalLoop r x p (p.getD (p.length - 1) 0 % r) (p.length - 1)

/-! ### dividePolyByXminusA : in-place synthetic division -/

/-- `for i := len(f)-2; i >= 0; i-- { t = f[i+1]*a; f[i] = f[i]+t }` ; the last argument is `i+1` -/
def divLoop (r a : Nat) (f : List Nat) : Nat → List Nat
  | 0 => f
  | i+1 => divLoop r a (f.set i (addm r (f.getD i 0) (mulm r (f.getD (i+1) 0) a))) i

/-- `f[0] -= fa`, the loop, `return f[1:]` -/
def dividePolyByXminusA (r : Nat) (f : List Nat) (fa a : Nat) : List Nat :=
  let f0 := f.set 0 (subm r (f.getD 0 0) fa)
  (divLoop r a f0 (f.length - 1)).tail

/-! ### SRS, Commit, Open, Verify -/

structure VK where
  g1 : Nat            -- Vk.G1
  g2 : Nat × Nat      -- Vk.G2 = [G₂, [τ]G₂]   (Vk.Lines are a function of Vk.G2)
  deriving DecidableEq, Repr

structure SRS where
  pk : List Nat       -- Pk.G1 = [G₁, [τ]G₁, [τ²]G₁, …]
  vk : VK
  deriving DecidableEq, Repr

/-- `[s, s·τ, s·τ², …]` (n entries): `alphas[i] = alphas[i-1]·α` -/
def powers (r τ : Nat) : Nat → Nat → List Nat
  | _, 0 => []
  | s, n+1 => s :: powers r τ (mulm r s τ) n

/-- the verifying key of trapdoor τ: Vk.G1 = G₁, Vk.G2 = (G₂, [τ]G₂) -/
def vkOf (r τ : Nat) : VK := { g1 := 1 % r, g2 := (1 % r, τ % r) }

def newSRS (r : Nat) (size τ : Nat) : Except Err SRS :=
  if size < 2 then .error .srsSize
  else .ok { pk := powers r τ (1 % r) size, vk := vkOf r τ }

/-- MultiExp in the exponent: Σ sᵢ·Pᵢ -/
def msm (r : Nat) : List Nat → List Nat → Nat
  | P :: ps, s :: ss => addm r (mulm r s P) (msm r ps ss)
  | _, _ => 0

/-- `Commit`: size check, then `MultiExp(pk.G1[:len(p)], p)` -/
def commit (r : Nat) (p : List Nat) (pk : List Nat) : Except Err Nat :=
  if p.length = 0 ∨ p.length > pk.length then .error .polySize
  else .ok (msm r (pk.take p.length) p)

/-- commitment of the quotient. PROPERTY-SIDE DEVIATION: the empty quotient (constant polynomial) is committed
to the identity; kzg.go calls `Commit(h, pk)` which returns ErrInvalidPolynomialSize for `len(h) = 0`. -/
def commitQuotient (r : Nat) (h : List Nat) (pk : List Nat) : Except Err Nat :=
  if h.length = 0 then .ok 0 else commit r h pk

/-- `Open` : returns (H, ClaimedValue) -/
def openAt (r : Nat) (p : List Nat) (z : Nat) (pk : List Nat) : Except Err (Nat × Nat) :=
  if p.length = 0 ∨ p.length > pk.length then .error .polySize
  else
    let v := eval r p z
    let h := dividePolyByXminusA r p v z
    match commitQuotient r h pk with
    | .error e => .error e
    | .ok H => .ok (H, v)

/-- PairingCheck in the exponent -/
def pairingCheck (r : Nat) (ps : List (Nat × Nat)) : Bool :=
  (ps.foldl (fun acc pq => addm r acc (mulm r pq.1 pq.2)) 0) == 0

/-- `Verify` as kzg.go computes it:
    total = [v]Vk.G1 + [−z]H  (JointScalarMultiplication);  total −= commitment;
    PairingCheck([total, H], [G₂, [τ]G₂]) -/
def verify (r : Nat) (vk : VK) (c H v z : Nat) : Bool :=
  let pointNeg := negm r z
  let total := addm r (mulm r v vk.g1) (mulm r pointNeg H)
  let total := subm r total c
  pairingCheck r [(total, vk.g2.1), (H, vk.g2.2)]

/-! ### batch opening at a single point (γ = Fiat–Shamir challenge, a parameter) -/

/-- `fold`: (Σ cᵢ·dᵢ , Σ cᵢ·f(aᵢ)) -/
def fold (r : Nat) (di fai ci : List Nat) : Nat × Nat :=
  (msm r di ci, msm r fai ci)

/-- `gammai = [1, γ, γ², …, γⁿ⁻¹]` -/
def gammaPowers (r γ n : Nat) : List Nat := powers r γ (1 % r) n

/-- `FoldProof` : (folded H, folded claimed value, folded digest) -/
def foldProof (r γ : Nat) (digests : List Nat) (H : Nat) (vals : List Nat) : Except Err (Nat × Nat × Nat) :=
  if digests.length ≠ vals.length then .error .nbDigests
  else if digests.length = 0 then .error .zeroDigests   -- ErrZeroNbDigests (since fix a88cea6; `gammai[0].SetOne()` used to index an empty slice)
  else
    let (fd, fe) := fold r digests vals (gammaPowers r γ digests.length)
    .ok (H % r, fe, fd)

/-- `BatchVerifySinglePoint` -/
def batchVerifySinglePoint (r γ : Nat) (vk : VK) (digests : List Nat) (H : Nat) (vals : List Nat) (z : Nat) :
    Except Err Bool :=
  match foldProof r γ digests H vals with
  | .error e => .error e
  | .ok (fH, fv, fd) => .ok (verify r vk fd fH fv z)

/-- pointwise `acc[j] += s·p[j]` on the first `len p` entries (acc is at least as long) -/
def addScaled (r s : Nat) : List Nat → List Nat → List Nat
  | a :: acc, x :: p => addm r a (mulm r x s) :: addScaled r s acc p
  | acc, _ => acc

/-- `foldedPolynomials` of BatchOpenSinglePoint: copy of polys[0] padded to `largest`, then
`+= gammas[i-1]·polys[i]` with `gammas[i-1] = γⁱ` -/
def foldPolys (r : Nat) (largest : Nat) (polys : List (List Nat)) (gammas : List Nat) : List Nat :=
  match polys with
  | [] => []
  | p0 :: rest =>
    let init := (p0.map (· % r)) ++ List.replicate (largest - p0.length) 0
    (rest.zip gammas).foldl (fun acc pg => addScaled r pg.2 acc pg.1) init

/-- Horner in γ from the last claimed value: `∑ᵢγⁱ vᵢ` -/
def foldEvals (r γ : Nat) (vals : List Nat) : Nat :=
  vals.foldr (fun v acc => addm r (mulm r acc γ) v) 0

/-- `BatchOpenSinglePoint` : (H, claimed values). `digests` only enter through their number (and γ). -/
def batchOpenSinglePoint (r γ : Nat) (polys : List (List Nat)) (nbDigests : Nat) (z : Nat) (pk : List Nat) :
    Except Err (Nat × List Nat) :=
  if nbDigests ≠ polys.length then .error .nbDigests
  else if polys.any (fun p => p.length = 0 ∨ p.length > pk.length) then .error .polySize
  else if polys.length = 0 then .error .zeroDigests   -- PROPERTY-SIDE: the empty batch is refused like FoldProof / BatchVerify* refuse it
                                                       -- (kzg.go indexes `res.ClaimedValues[nbDigests-1]` in a goroutine: the process dies)
  else
    let vals := polys.map (fun p => eval r p z)
    let fe := foldEvals r γ vals
    let largest := polys.foldl (fun m p => max m p.length) 0
    let fp := foldPolys r largest polys (powers r γ (γ % r) polys.length)
    let h := dividePolyByXminusA r fp fe z
    match commitQuotient r h pk with
    | .error e => .error e
    | .ok H => .ok (H, vals)

/-! ### batch verification at several points (λᵢ = the verifier's random numbers, parameters; λ₀ = 1 as in Go) -/

/-- the folding branch of `BatchVerifyMultiPoints` (≥ 2 claims); `proofs` = list of (H, ClaimedValue) -/
def multiFold (r : Nat) (vk : VK) (lams : List Nat) (digests : List Nat) (proofs : List (Nat × Nat))
    (points : List Nat) : Bool :=
  let randomNumbers := (lams.set 0 1).map (· % r)          -- randomNumbers[0].SetOne(); the others random
  let quotients := proofs.map (·.1)
  let foldedQuotients := msm r quotients randomNumbers      -- ∑ᵢλᵢ[Hᵢ(α)]G₁
  let evals := proofs.map (·.2)
  let (foldedDigests, foldedEvals) := fold r digests evals randomNumbers
  let foldedEvalsCommit := mulm r foldedEvals vk.g1         -- [∑ᵢλᵢfᵢ(aᵢ)]G₁
  let foldedDigests := subm r foldedDigests foldedEvalsCommit
  let randomNumbers := List.zipWith (mulm r) randomNumbers points
  let foldedPointsQuotients := msm r quotients randomNumbers
  let foldedDigests := addm r foldedDigests foldedPointsQuotients
  let foldedQuotients := negm r foldedQuotients
  pairingCheck r [(foldedDigests, vk.g2.1), (foldedQuotients, vk.g2.2)]

/-- `BatchVerifyMultiPoints` -/
def batchVerifyMultiPoints (r : Nat) (vk : VK) (lams : List Nat) (digests : List Nat) (proofs : List (Nat × Nat))
    (points : List Nat) : Except Err Bool :=
  if digests.length ≠ proofs.length ∨ digests.length ≠ points.length then .error .nbDigests
  else if digests.length = 0 then .error .zeroDigests
  else if digests.length = 1 then     -- `return Verify(&digests[0], &proofs[0], points[0], vk)`
    .ok (verify r vk (digests.getD 0 0) (proofs.getD 0 (0, 0)).1 (proofs.getD 0 (0, 0)).2 (points.getD 0 0))
  else .ok (multiFold r vk lams digests proofs points)

/-! ### histories of the serialisation API (shared readers, re-used destinations) and of a setup ceremony -/

/-- a prefix-exact codec: `dec` takes exactly the bytes `enc` wrote and leaves the rest of the stream
(what `WriteTo` / `ReadFrom` of SRS, ProvingKey, VerifyingKey, OpeningProof, BatchOpeningProof, MpcSetup must be) -/
structure Codec (α : Type) where
  enc : α → List UInt8
  dec : List UInt8 → Option (α × List UInt8)
  exact : ∀ a rest, dec (enc a ++ rest) = some (a, rest)

/-- `n` calls of `ReadFrom` on ONE reader: the objects in order and what is left of the stream -/
def decMany {α : Type} (c : Codec α) : Nat → List UInt8 → Option (List α × List UInt8)
  | 0, s => some ([], s)
  | n+1, s =>
    match c.dec s with
    | none => none
    | some (a, rest) =>
      match decMany c n rest with
      | none => none
      | some (as, t) => some (a :: as, t)

/-- `C11 stream`: (objects read back, bytes left on the reader) for `k` objects followed by `trailer` bytes
(`C11_stream_roundtrip`: all of them, and exactly the trailer) -/
def streamAnswer (k trailer : Nat) : Nat × Nat := (k, trailer)

/-- setup ceremony: transcript `k` (after `k` contributions) carries the hash of transcript `k−1` as its challenge;
sha256 has no collision on the chain, so `prev.Verify(next)` accepts the link exactly when `next` is the successor of `prev`
(the update proofs of honest contributions are valid) -/
def linkOk (prev next : Nat) : Bool := next == prev + 1

/-- `prev.Verify(&q); prev = q` along the transcripts that are read back -/
def chainVerdicts (prev : Nat) : List Nat → List Bool
  | [] => []
  | t :: ts => linkOk prev t :: chainVerdicts t ts

/-- the transcripts 1..rounds of one ceremony without the one of index `drop` (0-based) -/
def phasesOf (rounds : Nat) (drop : Option Nat) : List Nat :=
  ((List.range rounds).filter (fun i => some i != drop)).map (· + 1)

/-! ### line protocol  `C11 <op> <curve> …`  (curve ∈ bn254, bls12_377, bls12_381, bls24_315, bls24_317, bw6_633, bw6_761) -/

def parseList (s : String) : List Nat := if s == "-" then [] else (s.splitOn ",").map parseHexD
def showList (xs : List Nat) : String := if xs.isEmpty then "-" else ",".intercalate (xs.map toHex)
/-- `p0;p1;…` ; a lone `-` is ONE empty polynomial (an empty batch is not expressible: the Go code dies on it) -/
def parsePolys (s : String) : List (List Nat) := (s.splitOn ";").map parseList

/-- τ token: `<hex>` or `m1:<hex of fr.Generator(4)>` (NewSRS(size, −1): the SRS of the 4-th root of unity) -/
def parseTau (s : String) : Nat :=
  if s.startsWith "m1:" then parseHexD (s.drop 3).toString else parseHexD s

def showVerdict : Except Err Bool → String
  | .ok b => boolStr b
  | .error e => e.show

def handleOp (r : Nat) (op : String) (a : List String) : String :=
  let arg (i : Nat) : String := a.getD i "-"
  let num (i : Nat) : Nat := parseHexD (arg i)
  match op with
  | "srs" =>   -- srs <size> <tau>
    match newSRS r (num 0) (parseTau (arg 1)) with
    | .ok _ => "1"
    | .error e => e.show
  | "open" =>  -- open <size> <tau> <coeffs> <z>  →  <c> <v> <h> <verdict>
    match newSRS r (num 0) (parseTau (arg 1)) with
    | .error e => e.show
    | .ok srs =>
      let p := parseList (arg 2); let z := num 3
      match commit r p srs.pk with
      | .error e => e.show
      | .ok c =>
        match openAt r p z srs.pk with
        | .error e => toHex c ++ " " ++ e.show
        | .ok (H, v) => toHex c ++ " " ++ toHex v ++ " " ++ toHex H ++ " " ++ boolStr (verify r srs.vk c H v z)
  | "verify" => -- verify <tau> <c> <h> <v> <z>
    match newSRS r 2 (parseTau (arg 0)) with
    | .error e => e.show
    | .ok srs => boolStr (verify r srs.vk (num 1) (num 2) (num 3) (num 4))
  | "reuse" =>  -- reuse <tau> <c,h,v,z>…  → verdicts, then 1 (second pass identical, key bytes unchanged)
    match newSRS r 2 (parseTau (arg 0)) with
    | .error e => e.show
    | .ok srs =>
      let vs := (a.drop 1).map (fun t =>
        let l := parseList t
        boolStr (verify r srs.vk (l.getD 0 0) (l.getD 1 0) (l.getD 2 0) (l.getD 3 0)))
      " ".intercalate (vs ++ ["1"])
  | "batch1" => -- batch1 <tau> <gamma> <z> <h> <c list> <v list> → <gamma> <foldedV> <foldedC> <verdict>
    match newSRS r 2 (parseTau (arg 0)) with
    | .error e => e.show
    | .ok srs =>
      let γ := num 1; let z := num 2; let H := num 3
      let cs := parseList (arg 4); let vs := parseList (arg 5)
      match foldProof r γ cs H vs with
      | .error e => e.show
      | .ok (_, fv, fd) =>
        toHex γ ++ " " ++ toHex fv ++ " " ++ toHex fd ++ " " ++ showVerdict (batchVerifySinglePoint r γ srs.vk cs H vs z)
  | "bopen" =>  -- bopen <size> <tau> <gamma> <z> <polys> [<nbDigests>] → <gamma> <vals> <h> <verdict>
    match newSRS r (num 0) (parseTau (arg 1)) with
    | .error e => e.show
    | .ok srs =>
      let γ := num 2; let z := num 3; let polys := parsePolys (arg 4)
      match polys.mapM (fun p => commit r p srs.pk) with
      | .error e => e.show
      | .ok cs =>
        let nd := if a.length > 5 then num 5 else cs.length   -- optional: number of digests handed in
        match batchOpenSinglePoint r γ polys nd z srs.pk with
        | .error e => toHex γ ++ " " ++ e.show
        | .ok (H, vals) =>
          toHex γ ++ " " ++ showList vals ++ " " ++ toHex H ++ " " ++
            showVerdict (batchVerifySinglePoint r γ srs.vk cs H vals z)
  | "multi" =>  -- multi <tau> <lambdas> <c list> <h:v list> <z list>
    match newSRS r 2 (parseTau (arg 0)) with
    | .error e => e.show
    | .ok srs =>
      let lams := parseList (arg 1); let cs := parseList (arg 2)
      let prs := if arg 3 == "-" then [] else ((arg 3).splitOn ",").map (fun t =>
        match t.splitOn ":" with
        | [h, v] => (parseHexD h, parseHexD v)
        | _ => (0, 0))
      let zs := parseList (arg 4)
      showVerdict (batchVerifyMultiPoints r srs.vk lams cs prs zs)
  | "ser" => "1"  -- serialisation round trips: the model is the identity (codec theorems are C07's)
  | "stream" => -- stream <size> <tau> <rdr> <kinds> <h> <vs> <trailer> → <objects read> <bytes left> 1
    match newSRS r (num 0) (parseTau (arg 1)) with
    | .error e => e.show
    | .ok _ =>
      let kinds := (arg 3).splitOn ","
      let known := ["srs", "srsraw", "srsunsafe", "srsunsafec", "pk", "pkraw", "pkunsafe", "vk", "vkraw", "proof", "bproof",
        "mpc1", "mpc2", "mpc3", "dump"]
      if a.length != 7 || kinds.any (fun k => !known.contains k) then "bad-op"
      else
        let (k, t) := streamAnswer kinds.length (num 6)
        toString k ++ " " ++ toString t ++ " 1"
  | "reread" => -- reread <kind> <size1> <tau1> <size2> <tau2> <coeffs> <z>: the destination IS string 2, whatever it held
    match newSRS r (num 1) (parseTau (arg 2)) with
    | .error e => e.show
    | .ok _ =>
      match newSRS r (num 3) (parseTau (arg 4)) with
      | .error e => e.show
      | .ok srs =>
        if !["srs", "srsraw", "srsunsafe", "srsunsafec", "pk", "pkraw", "pkunsafe", "vk", "vkraw", "dump"].contains (arg 0)
          || a.length != 7 then "bad-op"
        else
        let p := parseList (arg 5); let z := num 6
        let out := toHex srs.pk.length ++ " 1"
        match commit r p srs.pk with
        | .error e => out ++ " " ++ e.show
        | .ok c =>
          match openAt r p z srs.pk with
          | .error e => out ++ " " ++ toHex c ++ " " ++ e.show
          | .ok (H, v) =>
            out ++ " " ++ toHex c ++ " " ++ toHex v ++ " " ++ toHex H ++ " " ++ boolStr (verify r srs.vk c H v z)
  | "rereadp" => -- rereadp <kind> <h1> <vs1> <h2> <vs2>: the destination holds proof 2
    let vs2 := (parseList (arg 4)).map (· % r)
    if a.length != 5 then "bad-op"
    else if arg 0 == "proof" then toHex (num 3 % r) ++ " " ++ toHex (vs2.headD 0)
    else if arg 0 == "bproof" then toHex (num 3 % r) ++ " " ++ showList vs2
    else "bad-op"
  | "mpcchain" => -- mpcchain <size> <rounds> <mode> <drop|-> <rdr> <trailer> → verdict of every link
    let n := num 0; let rounds := num 1
    if a.length != 6 || n < 2 || n > 64 || rounds < 1 || rounds > 8
        || !["fresh", "reuse", "stream", "streamreuse"].contains (arg 2) then "bad-op"
    else
      let drop := if arg 3 == "-" then none else some (num 3)
      " ".intercalate ((chainVerdicts 0 (phasesOf rounds drop)).map boolStr)
  | "seal" =>   -- seal <size> <rounds> <after>: the string handed out is a value; an honest proof made with it verifies (C11_completeness)
    let n := num 0
    if a.length != 3 || n < 2 || n > 64 || num 1 > 8
        || ((arg 2).splitOn "+").any (fun t => !["none", "seal", "contribute", "write"].contains t) then "bad-op"
    else "1 1"
  | "bopen0" => -- bopen0 <size> <tau> <z>: BatchOpenSinglePoint of the empty batch
    match newSRS r (num 0) (parseTau (arg 1)) with
    | .error e => e.show
    | .ok srs =>
      if a.length != 3 then "bad-op"
      else match batchOpenSinglePoint r 0 [] 0 (num 2) srs.pk with
        | .error e => e.show
        | .ok _ => "accepted"
  | _ => "bad-op"

def handle : List String → String
  | op :: curve :: rest =>
    match FieldOps.lookup (curve ++ "_fr") with
    | some fc => handleOp fc.q op rest
    | none => "bad-op"
  | _ => "bad-op"

end GV.KZG
