import GnarkVerif.Model.Util
import GnarkVerif.Model.Alg
import GnarkVerif.Gen.Fields
/-
C05 — executable *textbook* pairing (core-only), independent of the optimised Go code.

For each of the seven pairing curves of /repo/ecc:
* the extension tower is the generic schoolbook tower of `GV.Alg` (`quad`, `cubic`) with the non-residues documented in the
  package comment of `/repo/ecc/<curve>/<curve>.go`;
* G2 lives on the sextic twist `E'/F_{p^{k/6}}`; points are *untwisted* into `E(F_{p^k})`
  (D-type: `(x,y) ↦ (x·w², y·w³)`, M-type: `(x,y) ↦ (x/w², y/w³)`, `w` the generator of the top quadratic layer, `w⁶ = ξ`);
* the Miller function `f_{n,Q}(P)` is the textbook double-and-add over the plain binary expansion of `|n|`, affine
  chord/tangent lines **and** vertical lines (numerator and denominator are kept apart, one inversion at the end), everything
  evaluated in `F_{p^k}`;   `f_{−n,Q} = 1/(f_{n,Q}·v_{[n]Q})`;
* optimal ate:  BN        `f_{6x+2,Q}(P) · ℓ_{[6x+2]Q,π(Q)}(P) · ℓ_{[6x+2]Q+π(Q),−π²(Q)}(P)`,  π = p-power Frobenius of `E(F_{p^k})`
                BLS12/24  `f_{x,Q}(P)`
                BW6       `f_{a₀,Q}(P) · f_{a₁,π(Q)}(P) · ℓ_{[a₀]Q,[a₁]π(Q)}(P)`,  a₀ + a₁·p ≡ 0 mod r
                          (bw6-761: a₀ = x+1, a₁ = x³−x²−x;  bw6-633: a₀ = x⁵−x⁴−x, a₁ = x+1);
* the final exponentiation is ONE plain square-and-multiply `pow` by  `d = s·(p^k − 1)/r`, `s` the cofactor that the hard part of
  the Go `FinalExponentiation` introduces (bn254: 2x(6x²+3x+1); BLS12/BLS24: 3; bw6-761: x+1; bw6-633: x⁵−x⁴−x < 0, i.e. one extra inversion).

Because sub-field factors (line normalisations, vertical lines, the constant `w³` of M-twists) die in the final exponentiation, the value
equals Go's `Pair` output coordinate for coordinate.  Coordinate layout: the nested pairs of `quad`/`cubic` print in exactly the
declaration order of the Go structs:
  E12 = ((C0.B0.A0, C0.B0.A1), (C0.B1.A0, C0.B1.A1), (C0.B2.A0, C0.B2.A1)), ((C1.B0.A0, …), …, (C1.B2.A0, C1.B2.A1))
  E24 = D0.C0.B0.A0, D0.C0.B0.A1, D0.C0.B1.A0, D0.C0.B1.A1, D0.C1.B0.A0, …, D1.C2.B1.A1      (E2 ⊂ E4 ⊂ E12 ⊂ E24 : quad, quad, cubic, quad)
  bw6 E6 = B0.A0, B0.A1, B0.A2, B1.A0, B1.A1, B1.A2                                           (E3 cubic, E6 quad)
-/
namespace GV.Pairing
open GV GV.Alg

inductive Loop where
  | bn (x : Nat)                -- f_{6x+2} and the two Frobenius lines
  | bls (x : Int)               -- f_x
  | bw6 (a0 a1 : Int)           -- f_{a0,Q} · f_{a1,π Q}

/-- a pairing curve: `E/F_p : y² = x³ + b`, twist field `τ = F_{p^{k/6}}`, full field `κ = F_{p^k}` -/
structure PCurve (τ κ : Type) where
  name : String
  p : Nat
  r : Nat
  k : Nat
  b : Nat
  T : FOps τ
  xi : τ                 -- w⁶ = ξ ; twist  y² = x³ + b/ξ (D) or b·ξ (M)
  mTwist : Bool
  K : FOps κ
  embT : τ → κ
  w : κ
  g1 : Nat × Nat
  g2 : τ × τ
  loop : Loop
  s : Int                -- cofactor of the hard part: Go computes z ↦ z^(s·(p^k−1)/r)  (negative on bw6-633)

namespace PCurve
variable {τ κ : Type} (C : PCurve τ κ)

def E1 : Curve Nat := { F := fp C.p, a := 0, b := C.b % C.p }
def bT : τ := if C.mTwist then C.T.mul (C.T.ofNat C.b) C.xi else C.T.mul (C.T.ofNat C.b) (C.T.inv C.xi)
def E2 : Curve τ := { F := C.T, a := C.T.zero, b := C.bT }
def EK : Curve κ := { F := C.K, a := C.K.zero, b := C.K.ofNat C.b }

/-- the final exponent `|s|·(p^k − 1)/r` -/
def finalExp : Nat := C.s.natAbs * ((C.p ^ C.k - 1) / C.r)

/-- untwist `E'(τ) → E(κ)` -/
def untwist : Pt τ → Pt κ
  | none => none
  | some (x, y) =>
    let K := C.K
    let w2 := K.mul C.w C.w
    let w3 := K.mul w2 C.w
    if C.mTwist then some (K.mul (C.embT x) (K.inv w2), K.mul (C.embT y) (K.inv w3))
    else some (K.mul (C.embT x) w2, K.mul (C.embT y) w3)

def embG1 : Pt Nat → Pt κ
  | none => none
  | some (x, y) => some (C.K.ofNat x, C.K.ofNat y)

/-- p-power Frobenius on `E(κ)`, by plain exponentiation -/
def frob : Pt κ → Pt κ
  | none => none
  | some (x, y) => some (C.K.pow x C.p, C.K.pow y C.p)

/-- vertical line through `T`, at `P` (1 for `T = O`) -/
def vert (T : Pt κ) (P : κ × κ) : κ :=
  match T with
  | none => C.K.one
  | some (x, _) => C.K.sub P.1 x

/-- the line through `T` and `R` (tangent when `T = R`, vertical when `T = −R` or one of them is `O`), normalised
    `y − y_T − λ(x − x_T)`, evaluated at `P` -/
def line (T R : Pt κ) (P : κ × κ) : κ :=
  let K := C.K
  match T, R with
  | none, R => C.vert R P
  | T, none => C.vert T P
  | some (x1, y1), some (x2, y2) =>
    if K.beq x1 x2 then
      if K.beq y1 y2 && !(K.beq y1 K.zero) then
        let l := K.mul (K.mul (K.ofNat 3) (K.mul x1 x1)) (K.inv (K.add y1 y1))
        K.sub (K.sub P.2 y1) (K.mul l (K.sub P.1 x1))
      else K.sub P.1 x1
    else
      let l := K.mul (K.sub y2 y1) (K.inv (K.sub x2 x1))
      K.sub (K.sub P.2 y1) (K.mul l (K.sub P.1 x1))

/-- Miller state: `f = num/den`, accumulated point -/
structure MS (κ : Type) where
  num : κ
  den : κ
  T : Pt κ

def dbl (P : κ × κ) (s : MS κ) : MS κ :=
  let K := C.K
  let T2 := C.EK.add s.T s.T
  { num := K.mul (K.mul s.num s.num) (C.line s.T s.T P), den := K.mul (K.mul s.den s.den) (C.vert T2 P), T := T2 }

def addQ (Q : Pt κ) (P : κ × κ) (s : MS κ) : MS κ :=
  let K := C.K
  let T3 := C.EK.add s.T Q
  { num := K.mul s.num (C.line s.T Q P), den := K.mul s.den (C.vert T3 P), T := T3 }

/-- bits of `n`, most significant first -/
def bitsMSB (n : Nat) : List Bool :=
  let rec go (fuel n : Nat) (acc : List Bool) : List Bool :=
    match fuel with
    | 0 => acc
    | f+1 => if n = 0 then acc else go f (n / 2) ((n % 2 == 1) :: acc)
  go (n.log2 + 1) n []

/-- `f_{n,Q}(P)` for `n : Nat` (divisor `n(Q) − ([n]Q) − (n−1)(O)`), with `[n]Q` -/
def millerNat (n : Nat) (Q : Pt κ) (P : κ × κ) : MS κ :=
  match bitsMSB n with
  | [] => { num := C.K.one, den := C.K.one, T := none }
  | _ :: rest =>
    rest.foldl (fun s bit => let s := C.dbl P s; if bit then C.addQ Q P s else s)
      { num := C.K.one, den := C.K.one, T := Q }

/-- `f_{n,Q}(P)` for every integer; `f_{−n} = 1/(f_n · v_{[n]Q})` -/
def millerInt (n : Int) (Q : Pt κ) (P : κ × κ) : MS κ :=
  let s := C.millerNat n.natAbs Q P
  if n < 0 then { num := s.den, den := C.K.mul s.num (C.vert s.T P), T := C.EK.neg s.T } else s

/-- the optimal-ate Miller function of the curve at `(P, Q)`, `P ∈ E(F_p)`, `Q ∈ E'(τ)`, as a fraction; `O` on either side ↦ 1 -/
def millerFn (P : Pt Nat) (Q : Pt τ) : κ × κ :=
  let K := C.K
  match C.embG1 P, C.untwist Q with
  | some P, some Q =>
    match C.loop with
    | .bls x => let s := C.millerInt x (some Q) P; (s.num, s.den)
    | .bn x =>
      let s := C.millerNat (6 * x + 2) (some Q) P
      let Q1 := C.frob (some Q)
      let Q2 := C.EK.neg (C.frob Q1)
      let s := C.addQ Q1 P s
      let s := C.addQ Q2 P s
      (s.num, s.den)
    | .bw6 a0 a1 =>
      let s0 := C.millerInt a0 (some Q) P
      let s1 := C.millerInt a1 (C.frob (some Q)) P
      (K.mul (K.mul s0.num s1.num) (C.line s0.T s1.T P), K.mul (K.mul s0.den s1.den) (C.vert (C.EK.add s0.T s1.T) P))
  | _, _ => (K.one, K.one)

/-- `∏ f(Pᵢ,Qᵢ)` as one field element -/
def millerProd (PQ : List (Pt Nat × Pt τ)) : κ :=
  let K := C.K
  let (n, d) := PQ.foldl (fun (acc : κ × κ) pq => let f := C.millerFn pq.1 pq.2; (K.mul acc.1 f.1, K.mul acc.2 f.2)) (K.one, K.one)
  K.mul n (K.inv d)

/-- the reduced pairing product `(∏ f(Pᵢ,Qᵢ))^(s(p^k−1)/r)` -/
def pairing (PQ : List (Pt Nat × Pt τ)) : κ :=
  let f := C.millerProd PQ
  C.K.pow (if C.s < 0 then C.K.inv f else f) C.finalExp

def G1 (a : Int) : Pt Nat := C.E1.smul a (some C.g1)
def G2 (b : Int) : Pt τ := C.E2.smul b (some C.g2)

def showG1 : Pt Nat → String
  | none => "inf"
  | some (x, y) => toHex x ++ "," ++ toHex y
def showG2 : Pt τ → String
  | none => "inf"
  | some (x, y) => C.T.show_ x ++ "," ++ C.T.show_ y

/-- bw6: the two loop scalars satisfy `a₀ + a₁·p ≡ 0 (mod r)` -/
def loopOk : Bool :=
  match C.loop with
  | .bw6 a0 a1 => (a0 + a1 * (C.p : Int)) % (C.r : Int) == 0
  | _ => true

/-- consistency of the constants: generators on their curves, untwisted generator on `E(κ)`, `w⁶ = ξ`, `[r]g = O`,
    `r ∣ p^k − 1`, loop scalars -/
def selftest : String :=
  let K := C.K
  let w2 := K.mul C.w C.w
  let w6 := K.mul (K.mul w2 w2) w2
  boolStr (C.E1.onCurve (some C.g1)) ++ boolStr (C.E2.onCurve (some C.g2)) ++ boolStr (C.EK.onCurve (C.untwist (some C.g2)))
    ++ boolStr (K.beq w6 (C.embT C.xi)) ++ boolStr ((C.G1 (C.r : Int)).isNone) ++ boolStr ((C.G2 (C.r : Int)).isNone)
    ++ boolStr ((C.p ^ C.k - 1) % C.r == 0) ++ boolStr C.loopOk

end PCurve

/-! ### the seven curves (constants: package comment and `init()` of `/repo/ecc/<curve>/<curve>.go`; moduli from `GV.Gen`) -/

section towers
/-- `F_p ⊂ F_{p²} ⊂ F_{p⁶} ⊂ F_{p¹²}` : quad β, cubic ξ, quad v -/
abbrev T2 := Nat × Nat
abbrev T6 := T2 × T2 × T2
abbrev T12 := T6 × T6
def F2 (p β : Nat) : FOps T2 := quad (fp p) β
def F6 (p β : Nat) (ξ : T2) : FOps T6 := cubic (F2 p β) ξ
def F12 (p β : Nat) (ξ : T2) : FOps T12 := quad (F6 p β ξ) ((0, 0), (1 % p, 0), (0, 0))

/-- `F_p ⊂ F_{p²} ⊂ F_{p⁴} ⊂ F_{p¹²} ⊂ F_{p²⁴}` : quad β, quad γ, cubic v, quad w -/
abbrev T4 := T2 × T2
abbrev U12 := T4 × T4 × T4
abbrev T24 := U12 × U12
def F4 (p β : Nat) (γ : T2) : FOps T4 := quad (F2 p β) γ
def G12 (p β : Nat) (γ : T2) : FOps U12 := cubic (F4 p β γ) ((0, 0), (1 % p, 0))
def F24 (p β : Nat) (γ : T2) : FOps T24 := quad (G12 p β γ) (((0, 0), (0, 0)), ((1 % p, 0), (0, 0)), ((0, 0), (0, 0)))

/-- `F_p ⊂ F_{p³} ⊂ F_{p⁶}` : cubic β, quad u -/
abbrev T3 := Nat × Nat × Nat
abbrev S6 := T3 × T3
def F3 (p β : Nat) : FOps T3 := cubic (fp p) β
def H6 (p β : Nat) : FOps S6 := quad (F3 p β) (0, 1 % p, 0)
end towers

def mk12 (name : String) (p r b β : Nat) (ξ : T2) (m : Bool) (g1 : Nat × Nat) (g2 : T2 × T2) (loop : Loop) (s : Int) : PCurve T2 T12 :=
  { name, p, r, k := 12, b, T := F2 p β, xi := ξ, mTwist := m, K := F12 p β ξ,
    embT := fun a => ((a, (0, 0), (0, 0)), ((0, 0), (0, 0), (0, 0))),
    w := (((0, 0), (0, 0), (0, 0)), ((1, 0), (0, 0), (0, 0))), g1, g2, loop, s }

def mk24 (name : String) (p r b β : Nat) (γ : T2) (m : Bool) (g1 : Nat × Nat) (g2 : T4 × T4) (loop : Loop) (s : Int) : PCurve T4 T24 :=
  let z4 : T4 := ((0, 0), (0, 0))
  let z12 : U12 := (z4, z4, z4)
  { name, p, r, k := 24, b, T := F4 p β γ, xi := ((0, 0), (1, 0)), mTwist := m, K := F24 p β γ,
    embT := fun a => ((a, z4, z4), z12),
    w := (z12, (((1, 0), (0, 0)), z4, z4)), g1, g2, loop, s }

def mk6 (name : String) (p r b β ξ : Nat) (m : Bool) (g1 g2 : Nat × Nat) (loop : Loop) (s : Int) : PCurve Nat S6 :=
  { name, p, r, k := 6, b, T := fp p, xi := ξ, mTwist := m, K := H6 p β,
    embT := fun a => ((a % p, 0, 0), (0, 0, 0)),
    w := ((0, 0, 0), (1, 0, 0)), g1, g2, loop, s }

open GV.Gen in
def bn254 : PCurve T2 T12 :=
  let x := 4965661367192848881
  mk12 "bn254" bn254_fp.q bn254_fr.q 3 (bn254_fp.q - 1) (9, 1) false (1, 2)
    ((0x1800deef121f1e76426a00665e5c4479674322d4f75edadd46debd5cd992f6ed, 0x198e9393920d483a7260bfb731fb5d25f1aa493335a9e71297e485b7aef312c2),
     (0x12c85ea5db8c6deb4aab71808dcb408fe3d1e7690c43d37b4ce6cc0166fa7daa, 0x90689d0585ff075ec9e99ad690c3395bc4b313370b38ef355acdadcd122975b))
    (.bn x) ((2 * x * (6 * x * x + 3 * x + 1) : Nat) : Int)

open GV.Gen in
def bls12_377 : PCurve T2 T12 :=
  mk12 "bls12-377" bls12_377_fp.q bls12_377_fr.q 1 (bls12_377_fp.q - 5) (0, 1) false
    (0x8848defe740a67c8fc6225bf87ff5485951e2caa9d41bb188282c8bd37cb5cd5481512ffcd394eeab9b16eb21be9ef, 0x1914a69c5102eff1f674f5d30afeec4bd7fb348ca3e52d96d182ad44fb82305c2fe3d3634a9591afd82de55559c8ea6)
    ((0x18480be71c785fec89630a2a3841d01c565f071203e50317ea501f557db6b9b71889f52bb53540274e3e48f7c005196, 0xea6040e700403170dc5a51b1b140d5532777ee6651cecbe7223ece0799c9de5cf89984bff76fe6b26bfefa6ea16afe),
     (0x690d665d446f7bd960736bcbb2efb4de03ed7274b49a58e458c282f832d204f2cf88886d8c7c2ef094094409fd4ddf, 0xf8169fd28355189e549da3151a70aa61ef11ac3d591bf12463b01acee304c24279b83f5e52270bd9a1cdd185eb8f93))
    (.bls 9586122913090633729) 3

open GV.Gen in
def bls12_381 : PCurve T2 T12 :=
  mk12 "bls12-381" bls12_381_fp.q bls12_381_fr.q 4 (bls12_381_fp.q - 1) (1, 1) true
    (0x17f1d3a73197d7942695638c4fa9ac0fc3688c4f9774b905a14e3a3f171bac586c55e83ff97a1aeffb3af00adb22c6bb, 0x8b3f481e3aaa0f1a09e30ed741d8ae4fcf5e095d5d00af600db18cb2c04b3edd03cc744a2888ae40caa232946c5e7e1)
    ((0x24aa2b2f08f0a91260805272dc51051c6e47ad4fa403b02b4510b647ae3d1770bac0326a805bbefd48056c8c121bdb8, 0x13e02b6052719f607dacd3a088274f65596bd0d09920b61ab5da61bbdc7f5049334cf11213945d57e5ac7d055d042b7e),
     (0xce5d527727d6e118cc9cdc6da2e351aadfd9baa8cbdd3a76d429a695160d12c923ac9cc3baca289e193548608b82801, 0x606c4a02ea734cc32acd2b02bc28b99cb3e287e85a763af267492ab572e99ab3f370d275cec1da1aaa9075ff05f79be))
    (.bls (-15132376222941642752)) 3

open GV.Gen in
def bls24_315 : PCurve T4 T24 :=
  mk24 "bls24-315" bls24_315_fp.q bls24_315_fr.q 1 13 (0, 1) false
    (0x41a0a424393988da1b2b117076ef6e4f54b344cc46dde3c983603a832cb638dbf4b721710866097, 0x2e6f83c55deff20227ecdf0db2bb2ebb5d72c8a29010871d3cce9059e83dfb96f2922d5da4e4e5f)
    (((0x2f339ada8942f92aefa14196bfee2552a7c5675f5e5e9da798458f72ff50f96f5c357cf13710f63, 0x20b1a8dca4b18842b40079be727cbfd1a16ed134a080b759ae503618e92871697838dc4c689911c),
      (0x16eab1e76670eb9affa1bc77400be688d5cd69566f9325b329b40db85b47f236d5c34e8ffed7536, 0x6e8c608261f21c41f2479ca4824deba561b9689a9c03a5b8b36a6cbbed0a7d9468e07e557d8569)),
     ((0x3cdd8218baa5276421c9923cde33a45399a1d878d5202fae600a8502a29681f74ccdcc053b278b7, 0x3a079c670190bb49b1bd21e10aac3191535e32ce99da592ddfa8bd09d57a7374ed63ad7f25e398d),
      (0x1b38dd0c5ec49a0883a950c631c688eb3b01f45b7c0d2990cd99052005ebf2fa9e7043bbd605ef5, 0x495d6de2e4fed6be3e1d24dd724163e01d88643f7e83d31528ab0a80ced619175a1a104574ac83)))
    (.bls (-3218079743)) 3

open GV.Gen in
def bls24_317 : PCurve T4 T24 :=
  mk24 "bls24-317" bls24_317_fp.q bls24_317_fr.q 4 (bls24_317_fp.q - 1) (1, 1) true
    (0x325c2b065c4fac86d1140c27f7335cacb7d5c0542cae9e790b8a1290570a39ca25ffaef7f1da1f7, 0x32239cb1d737f2283ba0707d11b291df9ac9255df42134f7d5c9a6b3b4038e13b4544bdc6f7e333)
    (((0x36a6220950c7870b9d42ff09cefe0520deab97207021685b35ba445849cd469d1be033f82e5f017, 0xc91f3b3134fb62c277eddaf617551090b4ce7550b63a7dbdec4aa7aa4398ac69460650efc67408b),
      (0x1015c5600f61264941003d36e6c44373cfe660b3e58d022cd09022e888c30019f769bf66aa4d5b1d, 0x5bad535da2a42c5d074af7c66e0a7f455343c891add40be6fbbe7e3aa9ab0d43f72997d40039ea6)),
     ((0xaf7e47b2c41683b76e545a9124e54500468cb736cf2511bfa4b2a701638da87cf4db32a05c28b24, 0x19ca14178b54b1f00dfa9f1c2ee3edab9aae97ec0d054b4442ac47f56c08f58e6461943b996d329),
      (0x3cc71f2768ccabdb4e59ed5843672aad9ed9cc9013fe03dc4385324fb2b89d19f8441ec780193f, 0x101a83d160e4cab745f944fe44506b4ca63098605b00d937eebf4785587075d552e11033ff12e8f8)))
    (.bls 3640754176) 3

open GV.Gen in
def bw6_633 : PCurve Nat S6 :=
  let x : Int := -3218079743
  mk6 "bw6-633" bw6_633_fp.q bw6_633_fr.q 4 2 2 true
    (0xca5adae39135d62ef818bf5e9d9ba26d78402f5862e3b454a8631c1b3ee1e2acf02833c70f864dc562ac104e271a0e3651cf3680473e49a0bfe8fd4a974dbd401c1baf955862ccbc702e9be23e8007, 0x4ad25aef78defa0901b20f415b59b018d6f97584bff7f11eab0c05f1a29fbe6dfd38931b87cfc4ea9ef9bb67d620c4c5e1c834db3bf144fbeb364bc91ef89e8dcfbdae111856eaf201017f21a12e3a)
    (0xc432be3b1c5d5f604eb5cc501edabe8855c22a1ee1160b38249ecf4b2335a9993dcbb2621c6368f8bca245aea4b4dbf0d8dc1c83e9e230be990b1fbd18097b3e8f7c6a999b54130091b3148ce465a1, 0x89cbb03413d10d2f35a1da4aab7cffb594c6beb8ed86066c2285f7058401c27e30564a726dfa7791f4654229dfebd334c8a19b8515974157425734068325a578c9dc8b71d40b62b125ddd3b100a12)
    (.bw6 (x ^ 5 - x ^ 4 - x) (x + 1)) (x ^ 5 - x ^ 4 - x)

open GV.Gen in
def bw6_761 : PCurve Nat S6 :=
  let x : Int := 9586122913090633729
  mk6 "bw6-761" bw6_761_fp.q bw6_761_fr.q (bw6_761_fp.q - 1) (bw6_761_fp.q - 4) (bw6_761_fp.q - 4) true
    (0x1075b020ea190c8b277ce98a477beaee6a0cfb7551b27f0ee05c54b85f56fc779017ffac15520ac11dbfcd294c2e746a17a54ce47729b905bd71fa0c9ea097103758f9a280ca27f6750dd0356133e82055928aca6af603f4088f3af66e5b43d, 0x58b84e0a6fc574e6fd637b45cc2a420f952589884c9ec61a7348d2a2e573a3265909f1af7e0dbac5b8fa1771b5b806cc685d31717a4c55be3fb90b6fc2cdd49f9df141b3053253b2b08119cad0fb93ad1cb2be0b20d2a1bafc8f2db4e95363)
    (0x110133241d9b816c852a82e69d660f9d61053aac5a7115f4c06201013890f6d26b41c5dab3da268734ec3f1f09feb58c5bbcae9ac70e7c7963317a300e1b6bace6948cb3cd208d700e96efbc2ad54b06410cf4fe1bf995ba830c194cd025f1c, 0x17c3357761369f8179eb10e4b6d2dc26b7cf9acec2181c81a78e2753ffe3160a1d86c80b95a59c94c97eb733293fef64f293dbd2c712b88906c170ffa823003ea96fcd504affc758aa2d3a3c5a02a591ec0594f9eac689eb70a16728c73b61)
    (.bw6 (x + 1) (x ^ 3 - x ^ 2 - x)) (x + 1)

/-! ### line protocol -/

/-- strict signed hex -/
def parseSInt (s : String) : Option Int :=
  let (neg, body) := if s.startsWith "-" then (true, (s.drop 1).toString) else (false, s)
  if body.isEmpty then none else
  match parseHex body with
  | some n => some (if neg then - (n : Int) else n)
  | none => none

def parseCount (s : String) : Option Nat :=
  if s.isEmpty || s.length > 3 then none
  else if s.all (fun c => c.isDigit) then s.toNat? else none

def parseAll (ws : List String) : Option (List Int) := ws.mapM parseSInt

/-- `<nP> <nQ> a₁…a_nP b₁…b_nQ` -/
def parseVectors (ws : List String) : Option (List Int × List Int) :=
  match ws with
  | sp :: sq :: rest =>
    match parseCount sp, parseCount sq with
    | some nP, some nQ =>
      if rest.length != nP + nQ then none else
      match parseAll (rest.take nP), parseAll (rest.drop nP) with
      | some a, some b => some (a, b)
      | _, _ => none
    | _, _ => none
  | _ => none

def dot (a b : List Int) : Int := (List.zipWith (· * ·) a b).foldl (· + ·) 0

/-! ### call histories on shared precomputed lines (`hist`)

`hist <curve> <k> <n> b₁…b_k (<kind> a₁…a_k)×n`: the lines of `Q_j = [b_j]G2` are precomputed ONCE and the same slice (same backing
array) is handed to `n` consecutive fixed-argument calls, call `i` on `P = [a_{i,j}]G1` through `kind` ∈ `ml` (MillerLoopFixedQ +
FinalExponentiation), `pf` (PairFixedQ), `cf` (PairingCheckFixedQ). The specification is BY VALUE: every call is answered from its
own arguments only (`histCall`), whatever was called before on the same lines, and the arguments are left as they were:
`ml`/`pf` ↦ `11` (= `Pair(P,Q)`, = `e(G1,G2)^(Σ aⱼbⱼ)`), `cf` ↦ the verdict `Σ aⱼbⱼ ≡ 0 (mod r)`; then `:1` = lines and points
byte-identical to the snapshot taken before the first call. -/

/-- the answer to ONE call of a history: a function of this call's arguments only -/
def histCall (r : Nat) (b : List Int) (kind : String) (a : List Int) : String :=
  (if kind == "cf" then boolStr (dot a b % (r : Int) == 0) else "11") ++ ":1"

def histAnswers (r : Nat) (b : List Int) (calls : List (String × List Int)) : List String :=
  calls.map (fun c => histCall r b c.1 c.2)

def chunks (m : Nat) : Nat → List String → List (List String)
  | 0, _ => []
  | n + 1, l => l.take m :: chunks m n (l.drop m)

def parseCall (c : List String) : Option (String × List Int) :=
  match c with
  | kind :: as => if ["ml", "pf", "cf"].contains kind then (parseAll as).map (fun a => (kind, a)) else none
  | [] => none

/-- `<k> <n> b₁…b_k (<kind> a₁…a_k)×n`, 1 ≤ k, n ≤ 8 -/
def parseHist (ws : List String) : Option (List Int × List (String × List Int)) :=
  match ws with
  | sk :: sn :: rest =>
    match parseCount sk, parseCount sn with
    | some k, some n =>
      if k == 0 || k > 8 || n == 0 || n > 8 || rest.length != k + n * (k + 1) then none else
      match parseAll (rest.take k), (chunks (k + 1) n (rest.drop k)).mapM parseCall with
      | some b, some calls => some (b, calls)
      | _, _ => none
    | _, _ => none
  | _ => none

def handleHist (r : Nat) (args : List String) : String :=
  match parseHist args with
  | none => "bad-op"
  | some (b, calls) => " ".intercalate (histAnswers r b calls)

/-! ### call histories on Miller-loop outputs (`fehist`)

`fehist <curve> <g> <n> (<s> a₁…a_s b₁…b_s)×g (<m> i₁…i_m)×n`: `M_j = MillerLoop` of the j-th sub-list of pairs `([a]G1,[b]G2)` is
computed ONCE; then `n` calls `FinalExponentiation(&M_{i₁}, &M_{i₂}, …)` (variadic) on the SAME objects. The specification is BY
VALUE: a call is answered from the sub-lists it names only (`feCall`) - `11` (= `Pair` of the concatenated sub-lists,
= `e(G1,G2)^(Σ ab)`), then the bit `value = 1`, which the model COMPUTES as `Σ ab ≡ 0 (mod r)`, then `:1` = every Miller-loop output
bit-identical to its snapshot (FinalExponentiation does not write through its arguments). -/

/-- `Σ ab` over the sub-lists named by a call (an index out of range contributes nothing; the parser rejects it) -/
def feExponent (groups : List (List Int × List Int)) (idx : List Nat) : Int :=
  (idx.map fun j => match groups[j]? with
    | some (a, b) => dot a b
    | none => 0).foldl (· + ·) 0

/-- the answer to ONE call of a `fehist` history: a function of this call's arguments only -/
def feCall (r : Nat) (groups : List (List Int × List Int)) (idx : List Nat) : String :=
  "11" ++ boolStr (feExponent groups idx % (r : Int) == 0) ++ ":1"

def feAnswers (r : Nat) (groups : List (List Int × List Int)) (calls : List (List Nat)) : List String :=
  calls.map (feCall r groups)

/-- `n` blocks `<s> a₁…a_s b₁…b_s`, 1 ≤ s ≤ 5; returns the unread tokens -/
def parseGroups : Nat → List String → Option (List (List Int × List Int) × List String)
  | 0, rest => some ([], rest)
  | _ + 1, [] => none
  | n + 1, ss :: rest =>
    match parseCount ss with
    | none => none
    | some s =>
      if s == 0 || s > 5 || rest.length < 2 * s then none else
      match parseAll (rest.take s), parseAll ((rest.drop s).take s), parseGroups n (rest.drop (2 * s)) with
      | some a, some b, some (gs, rest') => some ((a, b) :: gs, rest')
      | _, _, _ => none

/-- `n` blocks `<m> i₁…i_m`, 1 ≤ m ≤ 4, decimal indices `< g`; returns the unread tokens -/
def parseFeCalls (g : Nat) : Nat → List String → Option (List (List Nat) × List String)
  | 0, rest => some ([], rest)
  | _ + 1, [] => none
  | n + 1, sm :: rest =>
    match parseCount sm with
    | none => none
    | some m =>
      if m == 0 || m > 4 || rest.length < m then none else
      match (rest.take m).mapM parseCount, parseFeCalls g n (rest.drop m) with
      | some idx, some (cs, rest') => if idx.all (· < g) then some (idx :: cs, rest') else none
      | _, _ => none

def handleFeHist (r : Nat) (args : List String) : String :=
  match args with
  | sg :: sn :: rest =>
    match parseCount sg, parseCount sn with
    | some g, some n =>
      if g == 0 || g > 8 || n == 0 || n > 8 then "bad-op" else
      match parseGroups g rest with
      | none => "bad-op"
      | some (groups, rest') =>
        match parseFeCalls g n rest' with
        | some (calls, []) => " ".intercalate (feAnswers r groups calls)
        | _ => "bad-op"
    | _, _ => "bad-op"
  | _ => "bad-op"

/-- ops that need the pairing of the curve -/
def handleCurve {τ κ : Type} (C : PCurve τ κ) (op : String) (args : List String) : String :=
  match op with
  | "pair" =>
    match parseVectors args with
    | none => "bad-op"
    | some (a, b) =>
      if a.length == 0 || a.length != b.length then "err:size"
      else C.K.show_ (C.pairing (List.zipWith (fun x y => (C.G1 x, C.G2 y)) a b))
  | "variants" =>
    -- all variants are the same function of the inputs (property); verdict only
    match parseVectors args with
    | none => "bad-op"
    | some (a, b) => if a.length == 0 || a.length != b.length then "err:size" else "111111"
  | "check" =>
    match parseVectors args with
    | none => "bad-op"
    | some (a, b) =>
      if a.length == 0 || a.length != b.length then "err:size"
      else let v := boolStr (dot a b % (C.r : Int) == 0); v ++ v
  | "bilin" =>
    match args.mapM parseSInt with
    | some [_, _] => "1"
    | _ => "bad-op"
  | "bilinv" =>
    match args.mapM parseSInt with
    | some [a, b] =>
      let g := C.pairing [(some C.g1, some C.g2)]
      let v := C.K.pow g ((a * b) % (C.r : Int)).toNat
      let e := C.pairing [(C.G1 a, C.G2 b)]
      C.K.show_ v ++ " " ++ boolStr (C.K.beq v e)
    | _ => "bad-op"
  | "order" => if args.isEmpty then "11" else "bad-op"
  | "orderv" =>
    if !args.isEmpty then "bad-op" else
    let g := C.pairing [(some C.g1, some C.g2)]
    boolStr (C.K.beq (C.K.pow g C.r) C.K.one) ++ boolStr (!(C.K.beq g C.K.one))
  | "g1" => match args.mapM parseSInt with
    | some [a] => PCurve.showG1 (C.G1 a)
    | _ => "bad-op"
  | "g2" => match args.mapM parseSInt with
    | some [a] => C.showG2 (C.G2 a)
    | _ => "bad-op"
  | "selftest" => if args.isEmpty then C.selftest else "bad-op"
  | "reuse" => match args.mapM parseSInt with
    | some [_, _] => "1"
    | _ => "bad-op"
  | "hist" => handleHist C.r args
  | "fehist" => handleFeHist C.r args
  | _ => "bad-op"

def handle (ws : List String) : String :=
  match ws with
  | op :: curve :: args =>
    match curve with
    | "bn254" => handleCurve bn254 op args
    | "bls12-377" => handleCurve bls12_377 op args
    | "bls12-381" => handleCurve bls12_381 op args
    | "bls24-315" => handleCurve bls24_315 op args
    | "bls24-317" => handleCurve bls24_317 op args
    | "bw6-633" => handleCurve bw6_633 op args
    | "bw6-761" => handleCurve bw6_761 op args
    | _ => "bad-op"
  | _ => "bad-op"

end GV.Pairing
