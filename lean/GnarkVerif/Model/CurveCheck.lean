import GnarkVerif.Model.Alg
import GnarkVerif.Model.Pairing
/-
C03/C04 (tie T) — executable, core-only checkers for the literal curve constants that `tools/goslp/curveconsts.go`
re-extracts from the Go source on every run (`Gen/CurveConsts.lean`).

Everything here is a closed computation meant for `decide +kernel`: structurally recursive (bit lists / fuel), no
inversion on the hot path (one `powMod` inversion costs the kernel as much as ~400 multiplications):

* `jsmul`   : [k]P on a short-Weierstrass curve `Alg.Curve α` over any `FOps` dictionary (F_p, F_p², F_p⁴), Jacobian
              coordinates (dbl-2007-bl, madd with the exceptional cases handled), most significant bit first;
              `jIsInf`, `jEqAff` compare the result with O resp. an affine point WITHOUT normalising;
* `teSmul`  : [k]P on a twisted Edwards curve `Alg.TECurve`, projective unified addition (add-2008-bbjlp);
* `bandersnatchPhi` : the projective endomorphism exactly as `ecc/bls12-381/bandersnatch/endomorpism.go` computes it for Z = 1;
* `nafDecomp` : `ecc.NafDecomposition` (`ecc/utils.go`) on `Nat`; `digitSum`, `digitsOk`, `nonAdjacent`;
* `red`, `toT1/toT2/toT4` : Go literals (signed, unreduced) -> elements of the model towers.

`jsmul`/`teSmul` are cross-checked against the textbook affine laws `Alg.Curve.smulNat` / `Alg.TECurve.smulNat` by the
`example`s of Props/C03_gen (small scalars on every curve).
-/
namespace GV.CurveCheck
open GV GV.Alg GV.Pairing

/-- a Go literal (any sign, any size) as a canonical residue -/
def red (p : Nat) (x : Int) : Nat := (x % (p : Int)).toNat

def toT1 (p : Nat) (l : List Int) : Nat := red p (l.getD 0 0)
def toT2 (p : Nat) (l : List Int) : T2 := (red p (l.getD 0 0), red p (l.getD 1 0))
def toT4 (p : Nat) (l : List Int) : T4 := ((red p (l.getD 0 0), red p (l.getD 1 0)), (red p (l.getD 2 0), red p (l.getD 3 0)))

/-- every literal lies in `[0, p)` (so `red` is the identity on it) -/
def canon (p : Nat) (l : List Int) : Bool := l.all (fun x => decide (0 ≤ x) && decide (x < (p : Int)))

/-- bits of `k`, most significant first -/
def bitsMSB (k : Nat) : List Bool :=
  let rec go (fuel k : Nat) (acc : List Bool) : List Bool :=
    match fuel with
    | 0 => acc
    | f+1 => if k = 0 then acc else go f (k / 2) ((k % 2 == 1) :: acc)
  go (k.log2 + 1) k []

/-! ### short Weierstrass, Jacobian coordinates (X : Y : Z), x = X/Z², y = Y/Z³, Z = 0 ⇔ O -/

section SW
variable {α : Type} (E : Curve α)

abbrev J (α : Type) := α × α × α

def jInf : J α := (E.F.one, E.F.one, E.F.zero)

def jIsInf (P : J α) : Bool := E.F.beq P.2.2 E.F.zero

def jOfAff (P : α × α) : J α := (P.1, P.2, E.F.one)

/-- dbl-2007-bl (any `a`); `Z = 0` or `Y = 0` give `Z₃ = 0` -/
def jDouble (P : J α) : J α :=
  let F := E.F
  match P with
  | (X, Y, Z) =>
    let XX := F.mul X X
    let YY := F.mul Y Y
    let YYYY := F.mul YY YY
    let ZZ := F.mul Z Z
    let S := F.mul (F.ofNat 4) (F.mul X YY)
    let M := F.add (F.mul (F.ofNat 3) XX) (F.mul E.a (F.mul ZZ ZZ))
    let X3 := F.sub (F.mul M M) (F.add S S)
    let Y3 := F.sub (F.mul M (F.sub S X3)) (F.mul (F.ofNat 8) YYYY)
    (X3, Y3, F.mul (F.add Y Y) Z)

/-- mixed addition `P + (x₂, y₂)` with the exceptional cases (P = O, P = ±Q) -/
def jAddMixed (P : J α) (Q : α × α) : J α :=
  let F := E.F
  match P with
  | (X1, Y1, Z1) =>
    if F.beq Z1 F.zero then jOfAff E Q else
    let Z1Z1 := F.mul Z1 Z1
    let U2 := F.mul Q.1 Z1Z1
    let S2 := F.mul Q.2 (F.mul Z1 Z1Z1)
    let H := F.sub U2 X1
    let R := F.sub S2 Y1
    if F.beq H F.zero then
      (if F.beq R F.zero then jDouble E (jOfAff E Q) else jInf E)
    else
      let HH := F.mul H H
      let HHH := F.mul H HH
      let V := F.mul X1 HH
      let X3 := F.sub (F.sub (F.mul R R) HHH) (F.add V V)
      let Y3 := F.sub (F.mul R (F.sub V X3)) (F.mul Y1 HHH)
      (X3, Y3, F.mul Z1 H)

/-- [k]Q, left-to-right double-and-add -/
def jsmul (k : Nat) (Q : α × α) : J α :=
  (bitsMSB k).foldl (fun acc b => let d := jDouble E acc; if b then jAddMixed E d Q else d) (jInf E)

/-- the Jacobian point equals the affine point `(x, y)` -/
def jEqAff (P : J α) (Q : α × α) : Bool :=
  let F := E.F
  match P with
  | (X, Y, Z) =>
    let ZZ := F.mul Z Z
    !(F.beq Z F.zero) && F.beq X (F.mul Q.1 ZZ) && F.beq Y (F.mul Q.2 (F.mul Z ZZ))

/-- normalisation (used only by the cross-check examples) -/
def jToAff (P : J α) : Pt α :=
  let F := E.F
  match P with
  | (X, Y, Z) =>
    if F.beq Z F.zero then none else
      let zi := F.inv Z
      let zi2 := F.mul zi zi
      some (F.mul X zi2, F.mul Y (F.mul zi2 zi))

/-- `G` is a point of the curve, not O, and `[r]G = O` -/
def genOk (r : Nat) (G : α × α) : Bool :=
  E.onCurve (some G) && jIsInf E (jsmul E r G)

/-- `[λ]G = (ω·x, y)` -/
def glvOk (lam : Nat) (ω : α) (G : α × α) : Bool :=
  jEqAff E (jsmul E lam G) (E.F.mul ω G.1, G.2)

end SW

/-! ### twisted Edwards, projective (X : Y : Z), x = X/Z, y = Y/Z -/

section TE
variable (E : TECurve)

abbrev P3 := Nat × Nat × Nat

def teId : P3 := (0, 1 % E.q, 1 % E.q)

/-- add-2008-bbjlp (unified) -/
def teAdd (P Q : P3) : P3 :=
  let F := fp E.q
  match P, Q with
  | (X1, Y1, Z1), (X2, Y2, Z2) =>
    let A := F.mul Z1 Z2
    let B := F.mul A A
    let C := F.mul X1 X2
    let D := F.mul Y1 Y2
    let Ed := F.mul E.d (F.mul C D)
    let Fm := F.sub B Ed
    let G := F.add B Ed
    let X3 := F.mul (F.mul A Fm) (F.sub (F.sub (F.mul (F.add X1 Y1) (F.add X2 Y2)) C) D)
    let Y3 := F.mul (F.mul A G) (F.sub D (F.mul E.a C))
    (X3, Y3, F.mul Fm G)

def teSmul (k : Nat) (Q : Nat × Nat) : P3 :=
  let Qp : P3 := (Q.1 % E.q, Q.2 % E.q, 1 % E.q)
  (bitsMSB k).foldl (fun acc b => let d := teAdd E acc acc; if b then teAdd E d Qp else d) (teId E)

def teIsId (P : P3) : Bool :=
  match P with
  | (X, Y, Z) => X % E.q == 0 && Y % E.q == Z % E.q && Z % E.q != 0

/-- equality of projective points (both with Z ≠ 0) -/
def teEq (P Q : P3) : Bool :=
  let F := fp E.q
  match P, Q with
  | (X1, Y1, Z1), (X2, Y2, Z2) =>
    Z1 % E.q != 0 && Z2 % E.q != 0 && F.mul X1 Z2 == F.mul X2 Z1 && F.mul Y1 Z2 == F.mul Y2 Z1

def teToAff (P : P3) : Nat × Nat :=
  let F := fp E.q
  match P with
  | (X, Y, Z) => let zi := F.inv Z; (F.mul X zi, F.mul Y zi)

/-- base point on the curve, not the identity, `[n]B = (0, 1)` -/
def teGenOk (n : Nat) (B : Nat × Nat) : Bool :=
  E.onCurve B && !(B.1 % E.q == 0 && B.2 % E.q == 1 % E.q) && teIsId E (teSmul E n B)

/-- `phi` of `ecc/bls12-381/bandersnatch/endomorpism.go` on the projective point (x, y, 1) -/
def bandersnatchPhi (e0 e1 : Nat) (B : Nat × Nat) : P3 :=
  let F := fp E.q
  let zz := 1 % E.q
  let yy := F.mul B.2 B.2
  let xy := F.mul B.1 B.2
  let f := F.mul (F.sub zz yy) e1
  let zz := F.mul zz e0
  let g := F.mul (F.add yy zz) e0
  let h := F.sub yy zz
  (F.mul f h, F.mul g xy, F.mul h xy)

end TE

/-! ### `ecc.NafDecomposition` and signed-digit strings (little endian) -/

/-- the loop of `ecc.NafDecomposition` (`ecc/utils.go`): even → 0; ≡ 3 mod 4 → −1 and `a+1`; else 1; then `a >>= 1` -/
def nafDecomp (a : Nat) : List Int :=
  let rec go (fuel a : Nat) : List Int :=
    match fuel with
    | 0 => []
    | f+1 =>
      if a = 0 then [] else
      if a % 2 = 0 then 0 :: go f (a / 2)
      else if a % 4 = 3 then (-1) :: go f ((a + 1) / 2)
      else 1 :: go f (a / 2)
  go (a.log2 + 3) a

/-- Σ dᵢ·2ⁱ -/
def digitSum (l : List Int) : Int := l.foldr (fun d acc => d + 2 * acc) 0

def digitsOk (l : List Int) : Bool := l.all (fun d => d == -1 || d == 0 || d == 1)

def nonAdjacent : List Int → Bool
  | a :: b :: t => (a == 0 || b == 0) && nonAdjacent (b :: t)
  | _ => true

/-- the content of a Go `[len]int8` loop counter after `init()`: the literal, or the zero array overwritten by
`NafDecomposition(src, arr[:])`; `none` when the Go code would index out of range -/
def loopArray (len : Nat) (isNaf : Bool) (src : Int) (lit : List Int) : Option (List Int) :=
  if isNaf then
    let d := nafDecomp src.toNat
    if src < 0 || d.length > len then none else some (d ++ List.replicate (len - d.length) 0)
  else if lit.length == len then some lit else none

/-- the array exists, has only digits −1/0/1 and represents `n` -/
def loopOk (len : Nat) (isNaf : Bool) (src : Int) (lit : List Int) (n : Int) : Bool :=
  match loopArray len isNaf src lit with
  | none => false
  | some l => l.length == len && digitsOk l && digitSum l == n

/-! ### lists of window sizes -/

def strictlySorted : List Nat → Bool
  | a :: b :: t => a < b && strictlySorted (b :: t)
  | _ => true

end GV.CurveCheck

namespace GV.CurveCheck
open GV GV.Alg

/-- `bTwistCurveCoeff` as `init()` computes it (`expr` = canonical text of the Go expression, extracted);
`none`: a form this model does not know -/
def bTwistOf {τ : Type} (T : FOps τ) (expr : String) (lit twist : τ) (b : Nat) : Option τ :=
  if expr == "literal" then some lit
  else if expr == "Inverse(twist)" then some (T.inv twist)
  else if expr == "Inverse(twist).MulByElement(bTwistCurveCoeff,bCurveCoeff)" then some (T.mul (T.inv twist) (T.ofNat b))
  else if expr == "MulByElement(twist,bCurveCoeff)" then some (T.mul twist (T.ofNat b))
  else none

/-- the twist curve `y² = x³ + b'` -/
def twistCurve {τ : Type} (T : FOps τ) (b' : Option τ) : Curve τ := { F := T, a := T.zero, b := b'.getD T.zero }

/-- Frobenius-twist coefficients of ψ = twist ∘ π ∘ untwist: D-twist `u = ξ^((p−1)/3)`, `v = ξ^((p−1)/2)`;
M-twist `u·ξ^((p−1)/3) = 1`, `v·ξ^((p−1)/2) = 1` -/
def endoOk {τ : Type} (T : FOps τ) (ξ : τ) (p : Nat) (mTwist : Bool) (u v : τ) : Bool :=
  let a := T.pow ξ ((p - 1) / 3)
  let b := T.pow ξ ((p - 1) / 2)
  (p - 1) % 6 == 0 &&
  (if mTwist then T.beq (T.mul u a) T.one && T.beq (T.mul v b) T.one else T.beq u a && T.beq v b)

/-- cross-check of the Jacobian ladder against the textbook affine law on the scalars `0 … n−1` -/
def ladderAgrees {α : Type} (E : Curve α) (n : Nat) (G : α × α) : Bool :=
  (List.range n).all (fun k => E.beq (jToAff E (jsmul E k G)) (E.smulNat k (some G)))

def teLadderAgrees (E : TECurve) (n : Nat) (B : Nat × Nat) : Bool :=
  (List.range n).all (fun k => teToAff E (teSmul E k B) == E.smulNat k (B.1 % E.q, B.2 % E.q))

/-- the Miller-loop parameter of a `Model/Pairing` curve as data (tag, scalars) -/
def loopCode : Pairing.Loop → List Int
  | .bn x => [0, (x : Int)]
  | .bls x => [1, x]
  | .bw6 a0 a1 => [2, a0, a1]

end GV.CurveCheck
