import GnarkVerif.Model.FieldOps
import GnarkVerif.Model.FFT
import GnarkVerif.Model.Poseidon2
import GnarkVerif.Model.SIS
/-
Model side of the `C09` op lines (tools/harness/c09_paths.go). The property says that neither the CPU feature set,
nor the build tag, nor the position of a slice in memory is observable: the model therefore IGNORES the offsets and the
constructor named on the line and answers with the value-level models of the other properties.

`C09 vpat <field> <oa>,<ob>,<or> <op> <n> <pat> <A> <B> <T> <pat2> <A2> <B2> <T2>`
   vector routine `op` on the vectors the two patterns stand for (`expand`); vector results are answered by
   `Σ (i+1)·rᵢ mod q`, first and last entry.
`C09 fftat <off> <kind> …`  = `C10 <kind> …`
`C09 p2 <perm|comp|x16> <ctor> <off> …` = `C14 p2perm|p2comp …` (x16: the 16 columns are 16 permutations)
`C09 sis <offv> <offr> …`   = `C14 sis …`
-/
namespace GV.CpuPath
open GV GV.Field

/-- the vector a pattern stands for (raw limb values `< q`) -/
def expand (q n : Nat) (pat : String) (A B T : Nat) : Option (List Nat) :=
  let lin := fun (i : Nat) => (A * (i + 1) + B) % q
  match pat with
  | "lin" => some ((List.range n).map lin)
  | "const" => some (List.replicate n (A % q))
  | "half" => some ((List.range n).map fun i => if i < n / 2 then A % q else B % q)
  | "alt" => some ((List.range n).map fun i => if i % 2 == 0 then A % q else B % q)
  | "pairs" => some ((List.range n).map fun i =>
      let x := lin (i / 2)
      if i % 2 == 1 then (q - x) % q else if i + 1 == n then 0 else x)
  | "fix" =>
    if n == 0 then some [] else
    let hd := (List.range (n - 1)).map lin
    let s := hd.foldl (· + ·) 0
    some (hd ++ [((T % q) + q - s % q) % q])
  | _ => none

def digestAux (q : Nat) : Nat → Nat → List Nat → Nat
  | _, acc, [] => acc % q
  | i, acc, x :: xs => digestAux q (i + 1) (acc + x * i) xs

/-- `Σ (i+1)·rᵢ mod q` -/
def digest (q : Nat) (r : List Nat) : Nat := digestAux q 1 0 r

def showVecRes (q : Nat) (r : List Nat) : String :=
  match r with
  | [] => "-"
  | x :: _ => toHex (digest q r) ++ " " ++ toHex x ++ " " ++ toHex (r.getLast?.getD 0)

def handleVpat (a : List String) : String :=
  match a with
  | [f, _offs, op, n, p1, a1, b1, t1, p2, a2, b2, t2] =>
    match FieldOps.lookup f with
    | none => "bad-op"
    | some fc =>
      let p := FieldOps.paramsOf fc
      let n := parseHexD n
      -- the operand a routine does not have is the empty vector (its pattern name is still checked)
      let nb := if op == "vsum" || op == "vscalarmul" then 0 else n
      match expand fc.q n p1 (parseHexD a1) (parseHexD b1) (parseHexD t1),
            expand fc.q nb p2 (parseHexD a2) (parseHexD b2) (parseHexD t2) with
      | some va, some vb =>
        match op with
        | "vadd" => showVecRes fc.q (vecAdd p va vb)
        | "vsub" => showVecRes fc.q (vecSub p va vb)
        | "vmul" => showVecRes fc.q (vecMul p va vb)
        | "vscalarmul" => showVecRes fc.q (vecScalarMul p va (parseHexD a2 % fc.q))
        | "vsum" => toHex (vecSum p va)
        | "vinner" => toHex (vecInner p va vb)
        | _ => "bad-op"
      | _, _ => "bad-op"
  | _ => "bad-op"

def handle (args : List String) : String :=
  match args with
  | "vpat" :: rest => handleVpat rest
  | "fftat" :: _off :: kind :: rest =>
    if kind == "fft" || kind == "inv" || kind == "roundtrip" || kind == "rtinv" then FFT.handle (kind :: rest) else "bad-op"
  | "p2" :: "perm" :: _ctor :: _off :: rest => Poseidon2.handlePerm rest
  | "p2" :: "comp" :: _ctor :: _off :: rest => Poseidon2.handleComp rest
  | "p2" :: "x16" :: _ctor :: _off :: rest => Poseidon2.handlePerm rest
  | "sis" :: _offv :: _offr :: rest => SIS.handleWith true rest
  | _ => "bad-op"

end GV.CpuPath
