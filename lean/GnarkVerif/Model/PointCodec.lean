import GnarkVerif.Model.Util
import GnarkVerif.Model.Alg
import GnarkVerif.Model.Field
/-
C07 — executable model of the point codecs (`Bytes`, `RawBytes`, `SetBytes`/`setBytes`) and of the stream
`Encoder`/`Decoder` of the curve packages (`ecc/<curve>/marshal.go`, generated from
`internal/generator/ecc/template/marshal.go.tmpl`).

Everything is a pure function on byte lists, parametric in
  * the flag layout (`Layout.two`: bn254 / grumpkin / stark-curve, 2 flag bits; `Layout.three`: ZCash style, 3 flag bits,
    all BLS / BW6 curves; `Layout.raw`: secp256k1, no flag, raw only),
  * the coordinate field (`Codec`: number and size of the base-field components in marshal order, `sqrt`,
    `lex` = `LexicographicallyLargest`, the curve equation as `sq y = rhs x`), and
  * the subgroup predicate `inSub` (a `Bool` function).

Flag arithmetic: the Go code masks the most significant byte (`buf[0] & mMask`, `bufX[0] &= ^mMask`); on the big-endian
value `n0` of the first component this is `n0 / 2^(8·fb-k)` (flag) and `n0 % 2^(8·fb-k)` (payload).

The model follows the *property* where the Go code does not (findings, see Props/C07.lean):
  * uncompressed decoding checks the curve equation also when the subgroup check is disabled (`Err.offcurve`),
  * a compressed encoding whose flag disagrees with `lex y` (only possible for `y = 0`) is rejected (`Err.lex`),
  * nested vector decoding stops at the first failing inner vector.
-/
namespace GV.PointCodec
open GV GV.Alg

/-! ## bytes -/

/-- exactly `len` big-endian bytes of `n` (high part truncated) -/
def putBE : Nat → Nat → List UInt8
  | 0, _ => []
  | len+1, n => putBE len (n / 256) ++ [UInt8.ofNat (n % 256)]

/-- `n` consecutive big-endian numbers of `fb` bytes each -/
def readComps (fb : Nat) : Nat → List UInt8 → List Nat
  | 0, _ => []
  | n+1, bs => beToNat (bs.take fb) :: readComps fb n (bs.drop fb)

def writeComps (fb : Nat) : List Nat → List UInt8
  | [] => []
  | x :: xs => putBE fb x ++ writeComps fb xs

def allZero (l : List Nat) : Bool := l.all (· == 0)
def allLt (p : Nat) (l : List Nat) : Bool := l.all (· < p)

/-! ## flags -/

inductive Err | short | flag | inf | noncanon | nosqrt | lex | offcurve | subgroup | batch
deriving DecidableEq, Repr

def Err.str : Err → String
  | .short => "err:short" | .flag => "err:flag" | .inf => "err:inf" | .noncanon => "err:noncanon"
  | .nosqrt => "err:nosqrt" | .lex => "err:lex" | .offcurve => "err:offcurve" | .subgroup => "err:subgroup"
  | .batch => "err:batch"

inductive Layout | raw | two | three
deriving DecidableEq, Repr

/-- meaning of the flag bits -/
inductive Flag | unc | uncInf | small | large | cInf | bad
deriving DecidableEq, Repr

/-- number of flag bits -/
def Layout.k : Layout → Nat
  | .raw => 0 | .two => 2 | .three => 3

/-- `mData` dispatch (`mUncompressed`, `mCompressedSmallest`, …; `isMaskInvalid` for the 3-bit layout) -/
def Layout.classify : Layout → Nat → Flag
  | .raw, _ => .unc
  | .two, 0 => .unc | .two, 1 => .cInf | .two, 2 => .small | .two, 3 => .large | .two, _ => .bad
  | .three, 0 => .unc | .three, 2 => .uncInf | .three, 4 => .small | .three, 5 => .large | .three, 6 => .cInf
  | .three, _ => .bad

/-- the flag constants written by the encoder -/
def Layout.code : Layout → Flag → Nat
  | .two, .cInf => 1 | .two, .small => 2 | .two, .large => 3
  | .three, .uncInf => 2 | .three, .small => 4 | .three, .large => 5 | .three, .cInf => 6
  | _, _ => 0

/-- flag used by `RawBytes` for the point at infinity -/
def Layout.rawInf : Layout → Flag
  | .three => .uncInf
  | _ => .unc

/-! ## the point codec -/

/-- what `setBytes` needs to know about the coordinate field and the curve -/
structure Codec (α : Type) where
  L : Layout
  p : Nat                    -- base prime
  fb : Nat                   -- `fp.Bytes`
  c : Nat                    -- base-field components per coordinate (1, 2, 4)
  toComps : α → List Nat     -- marshal order (most significant component first: A1 | A0)
  ofComps : List Nat → α
  zero : α
  neg : α → α
  sq : α → α                 -- y ↦ y²
  rhs : α → α                -- x ↦ x³ + a·x + b
  sqrt : α → Option α
  lex : α → Bool             -- LexicographicallyLargest
  inSub : α × α → Bool       -- subgroup membership of an on-curve affine point

variable {α : Type} [DecidableEq α]

namespace Codec
variable (C : Codec α)

/-- `SizeOfG?AffineCompressed` -/
def nbC : Nat := C.c * C.fb
/-- weight of the flag inside the first component -/
def shift : Nat := 2 ^ (8 * C.fb - C.L.k)

/-- Go represents infinity by the affine pair (0,0) -/
def mkPt (x y : α) : Pt α := if x = C.zero ∧ y = C.zero then none else some (x, y)

/-- bytes → (flag, masked X components, Y components, frame size); length and flag checks of `setBytes` -/
def parseFrame (buf : List UInt8) : Except Err (Flag × List Nat × List Nat × Nat) :=
  if buf.length < C.nbC then .error .short else
  match readComps C.fb C.c buf with
  | [] => .error .short
  | n0 :: tl =>
    let xs := (n0 % C.shift) :: tl
    match C.L.classify (n0 / C.shift) with
    | .bad => .error .flag
    | .unc =>
      if buf.length < 2 * C.nbC then .error .short
      else .ok (.unc, xs, readComps C.fb C.c (buf.drop C.nbC), 2 * C.nbC)
    | .uncInf =>
      if buf.length < 2 * C.nbC then .error .short
      else .ok (.uncInf, xs, readComps C.fb C.c (buf.drop C.nbC), 2 * C.nbC)
    | fl => .ok (fl, xs, [], C.nbC)

end Codec

/-- an item of a point slice after the sequential phase of `Decoder.Decode` -/
inductive Pending (α : Type)
  | done (P : Pt α)
  | unc (x y : α)
  | comp (x : α) (large : Bool)

namespace Codec
variable (C : Codec α)

/-- cheap checks: infinity payload, canonical coordinates (`unsafeSetCompressedBytes`, first half of `setBytes`) -/
def phase1 : Flag → List Nat → List Nat → Except Err (Pending α)
  | .bad, _, _ => .error .flag
  | .cInf, xs, _ => if allZero xs then .ok (.done none) else .error .inf
  | .uncInf, xs, ys => if allZero xs && allZero ys then .ok (.done none) else .error .inf
  | .unc, xs, ys =>
    if allLt C.p xs && allLt C.p ys then .ok (.unc (C.ofComps xs) (C.ofComps ys)) else .error .noncanon
  | .small, xs, _ => if allLt C.p xs then .ok (.comp (C.ofComps xs) false) else .error .noncanon
  | .large, xs, _ => if allLt C.p xs then .ok (.comp (C.ofComps xs) true) else .error .noncanon

/-- expensive checks: square root, sign choice, curve equation, subgroup (`unsafeComputeY`, `IsInSubGroup`) -/
def phase2 (sub : Bool) : Pending α → Except Err (Pt α)
  | .done P => .ok P
  | .unc x y =>
    if x = C.zero ∧ y = C.zero then .ok none
    else if C.sq y ≠ C.rhs x then .error (if sub then .subgroup else .offcurve)
    else if sub && !C.inSub (x, y) then .error .subgroup
    else .ok (some (x, y))
  | .comp x large =>
    match C.sqrt (C.rhs x) with
    | none => .error .nosqrt
    | some y0 =>
      let y := if C.lex y0 = large then y0 else C.neg y0
      if sub && !C.inSub (x, y) then .error .subgroup
      else if C.lex y ≠ large then .error .lex
      else .ok (C.mkPt x y)

/-- `(p *G?Affine) setBytes(buf, subGroupCheck)`: the decoded point and the number of bytes consumed -/
def setBytes (sub : Bool) (buf : List UInt8) : Except Err (Pt α × Nat) :=
  match C.parseFrame buf with
  | .error e => .error e
  | .ok (fl, xs, ys, n) =>
    match C.phase1 fl xs ys with
    | .error e => .error e
    | .ok pd =>
      match C.phase2 sub pd with
      | .error e => .error e
      | .ok P => .ok (P, n)

/-- flag ⊕ first component, remaining components, then Y -/
def buildFrame (fl : Flag) (xs ys : List Nat) : List UInt8 :=
  match xs with
  | [] => []
  | x0 :: tl => writeComps C.fb ((C.L.code fl * C.shift + x0) :: tl) ++ writeComps C.fb ys

def zeros : List Nat := List.replicate C.c 0

/-- `Bytes()` -/
def encCompressed : Pt α → List UInt8
  | none => C.buildFrame .cInf C.zeros []
  | some (x, y) =>
    if x = C.zero ∧ y = C.zero then C.buildFrame .cInf C.zeros []
    else C.buildFrame (if C.lex y then .large else .small) (C.toComps x) []

/-- `RawBytes()` / `Marshal()` -/
def encRaw : Pt α → List UInt8
  | none => C.buildFrame C.L.rawInf C.zeros C.zeros
  | some (x, y) =>
    if x = C.zero ∧ y = C.zero then C.buildFrame C.L.rawInf C.zeros C.zeros
    else C.buildFrame .unc (C.toComps x) (C.toComps y)

end Codec

/-! ## stream level: `Decoder` -/

/-- result of a decoding step: value or error, and the number of bytes taken from the stream (`dec.n` increment) -/
structure DR (τ : Type) where
  res : Except Err τ
  n : Nat

/-- `readUint32`, `readUint64`, `binary.Read` of a fixed-size unsigned integer: `k` bytes big-endian -/
def decUint (k : Nat) (bs : List UInt8) : DR Nat :=
  if bs.length < k then ⟨.error .short, bs.length⟩ else ⟨.ok (beToNat (bs.take k)), k⟩

/-- `*fr.Element` / `*fp.Element`: `B` bytes, canonical (`SetBytesCanonical`) -/
def decElem (q B : Nat) (bs : List UInt8) : DR Nat :=
  if bs.length < B then ⟨.error .short, bs.length⟩
  else if beToNat (bs.take B) < q then ⟨.ok (beToNat (bs.take B)), B⟩ else ⟨.error .noncanon, B⟩

/-- `k` items in sequence; the first failing item fails the whole (the property's error propagation) -/
def decMany {τ : Type} (item : List UInt8 → DR τ) : Nat → List UInt8 → DR (List τ)
  | 0, _ => ⟨.ok [], 0⟩
  | k+1, bs =>
    match item bs with
    | ⟨.error e, n⟩ => ⟨.error e, n⟩
    | ⟨.ok v, n⟩ =>
      match decMany item k (bs.drop n) with
      | ⟨.error e, m⟩ => ⟨.error e, n + m⟩
      | ⟨.ok vs, m⟩ => ⟨.ok (v :: vs), n + m⟩

/-- `uint32` length prefix then that many items -/
def decPrefixed {τ : Type} (item : List UInt8 → DR τ) (bs : List UInt8) : DR (List τ) :=
  match decUint 4 bs with
  | ⟨.error e, n⟩ => ⟨.error e, n⟩
  | ⟨.ok len, _⟩ =>
    match decMany item len (bs.drop 4) with
    | ⟨r, m⟩ => ⟨r, 4 + m⟩

namespace Codec
variable (C : Codec α)

/-- stream read of one point (compressed size first, "we read more" for uncompressed flags) + phase 1 -/
def decPointP1 (bs : List UInt8) : DR (Pending α) :=
  if bs.length < C.nbC then ⟨.error .short, bs.length⟩ else
  match C.parseFrame bs with
  | .error .short => ⟨.error .short, bs.length⟩
  | .error e => ⟨.error e, C.nbC⟩
  | .ok (fl, xs, ys, n) => ⟨C.phase1 fl xs ys, n⟩

/-- `Decode(*G?Affine)` -/
def decPoint (sub : Bool) (bs : List UInt8) : DR (Pt α) :=
  match C.decPointP1 bs with
  | ⟨.error e, n⟩ => ⟨.error e, n⟩
  | ⟨.ok pd, n⟩ => ⟨C.phase2 sub pd, n⟩

/-- second (parallel) phase of `Decode(*[]G?Affine)`: every item is validated, any failure fails the slice -/
def finish (sub : Bool) : List (Pending α) → Except Err (List (Pt α))
  | [] => .ok []
  | pd :: rest =>
    match C.phase2 sub pd, finish sub rest with
    | .ok P, .ok l => .ok (P :: l)
    | _, _ => .error .batch

/-- `Decode(*[]G?Affine)` -/
def decPoints (sub : Bool) (bs : List UInt8) : DR (List (Pt α)) :=
  match decPrefixed C.decPointP1 bs with
  | ⟨.error e, n⟩ => ⟨.error e, n⟩
  | ⟨.ok pds, n⟩ => ⟨C.finish sub pds, n⟩

end Codec

/-! ## stream level: values, `Encoder` -/

inductive Ty
  | u (bytes : Nat) | fr | fp | g1 | g2 | g1s | g2s | frs | fps | frss | frsss | u64s | u64ss
deriving DecidableEq, Repr

inductive Val (α β : Type)
  | u (bytes : Nat) (v : Nat)
  | fr (v : Nat) | fp (v : Nat)
  | g1 (P : Pt α) | g2 (P : Pt β)
  | g1s (l : List (Pt α)) | g2s (l : List (Pt β))
  | frs (l : List Nat) | fps (l : List Nat)
  | frss (l : List (List Nat)) | frsss (l : List (List (List Nat)))
  | u64s (l : List Nat) | u64ss (l : List (List Nat))

/-- the two scalar fields and the two point codecs of a curve package -/
structure Env (α β : Type) where
  frQ : Nat
  frB : Nat
  fpQ : Nat
  fpB : Nat
  C1 : Codec α
  C2 : Codec β

/-- `uint32` length prefix, then the items -/
def encPrefixed {τ : Type} (item : τ → List UInt8) (l : List τ) : List UInt8 :=
  putBE 4 l.length ++ (l.map item).flatten

variable {β : Type} [DecidableEq β]

def encPt (C : Codec α) (raw : Bool) (P : Pt α) : List UInt8 := if raw then C.encRaw P else C.encCompressed P

/-- `Encoder.Encode` (`raw` = `RawEncoding()` option); `BytesWritten` is the length of the output -/
def encodeVal (E : Env α β) (raw : Bool) : Val α β → List UInt8
  | .u k v => putBE k v
  | .fr v => putBE E.frB v
  | .fp v => putBE E.fpB v
  | .g1 P => encPt E.C1 raw P
  | .g2 P => encPt E.C2 raw P
  | .g1s l => encPrefixed (encPt E.C1 raw) l
  | .g2s l => encPrefixed (encPt E.C2 raw) l
  | .frs l => encPrefixed (putBE E.frB) l
  | .fps l => encPrefixed (putBE E.fpB) l
  | .frss l => encPrefixed (encPrefixed (putBE E.frB)) l
  | .frsss l => encPrefixed (encPrefixed (encPrefixed (putBE E.frB))) l
  | .u64s l => encPrefixed (putBE 8) l
  | .u64ss l => encPrefixed (encPrefixed (putBE 8)) l

def encodeSeq (E : Env α β) (raw : Bool) (vs : List (Val α β)) : List UInt8 :=
  (vs.map (encodeVal E raw)).flatten

def DR.map {σ τ : Type} (f : σ → τ) (r : DR σ) : DR τ :=
  ⟨match r.res with | .ok v => .ok (f v) | .error e => .error e, r.n⟩

/-- `Decoder.Decode` by target type (`sub` = subgroup checks not disabled) -/
def decodeVal (E : Env α β) (sub : Bool) : Ty → List UInt8 → DR (Val α β)
  | .u k, bs => (decUint k bs).map (.u k)
  | .fr, bs => (decElem E.frQ E.frB bs).map .fr
  | .fp, bs => (decElem E.fpQ E.fpB bs).map .fp
  | .g1, bs => (E.C1.decPoint sub bs).map .g1
  | .g2, bs => (E.C2.decPoint sub bs).map .g2
  | .g1s, bs => (E.C1.decPoints sub bs).map .g1s
  | .g2s, bs => (E.C2.decPoints sub bs).map .g2s
  | .frs, bs => (decPrefixed (decElem E.frQ E.frB) bs).map .frs
  | .fps, bs => (decPrefixed (decElem E.fpQ E.fpB) bs).map .fps
  | .frss, bs => (decPrefixed (decPrefixed (decElem E.frQ E.frB)) bs).map .frss
  | .frsss, bs => (decPrefixed (decPrefixed (decPrefixed (decElem E.frQ E.frB))) bs).map .frsss
  | .u64s, bs => (decPrefixed (decUint 8) bs).map .u64s
  | .u64ss, bs => (decPrefixed (decPrefixed (decUint 8)) bs).map .u64ss

/-- a sequence of `Decode` calls on one stream: the values decoded before the first error, the error if any,
and the total number of bytes consumed (`BytesRead`) -/
def decodeSeq (E : Env α β) (sub : Bool) : List Ty → List UInt8 → List (Val α β) × Option Err × Nat
  | [], _ => ([], none, 0)
  | t :: ts, bs =>
    match decodeVal E sub t bs with
    | ⟨.error e, n⟩ => ([], some e, n)
    | ⟨.ok v, n⟩ =>
      let (vs, e, m) := decodeSeq E sub ts (bs.drop n)
      (v :: vs, e, n + m)

/-- successive `Decode` runs (a fresh `Decoder` per stream) into the SAME destinations, started from the values
`prev`: the destinations hold what the last stream produced — nothing of `prev` or of the earlier streams survives -/
def decodeHistFrom (E : Env α β) (sub : Bool) (ts : List Ty) :
    List (Val α β) × Option Err × Nat → List (List UInt8) → List (Val α β) × Option Err × Nat
  | prev, [] => prev
  | _, bs :: rest => decodeHistFrom E sub ts (decodeSeq E sub ts bs) rest

def decodeHist (E : Env α β) (sub : Bool) (ts : List Ty) (streams : List (List UInt8)) :=
  decodeHistFrom E sub ts ([], none, 0) streams

/-! ## `Encoder` on a writer that fails

The writer (`io.Writer` handed to `NewEncoder`) holds a list of byte budgets: it accepts bytes until the head budget
is used up; the `Write` that asks for more gets the bytes that still fit, an error, and the writer goes on with the
next budget (a transient failure). With no budget left every non-empty `Write` fails with nothing accepted.
`[k]` is the writer that accepts exactly `k` bytes and then fails for ever. -/

abbrev Budgets := List Nat

/-- one `Write(p)`: bytes accepted, error reported, next state of the writer -/
def wWrite : Budgets → List UInt8 → List UInt8 × Bool × Budgets
  | [], p => ([], !p.isEmpty, [])
  | b :: bs, p => if p.length ≤ b then (p, false, (b - p.length) :: bs) else (p.take b, true, bs)

/-- successive `Write` calls of one `Encode`, which stops at the first `Write` that reports an error -/
def wChunks : Budgets → List (List UInt8) → List UInt8 × Bool × Budgets
  | w, [] => ([], false, w)
  | w, p :: ps =>
    match wWrite w p with
    | (o, true, w') => (o, true, w')
    | (o, false, w') =>
      let r := wChunks w' ps
      (o ++ r.1, r.2.1, r.2.2)

/-- the `Write` calls of a length-prefixed sequence: the `uint32` prefix, then those of the items -/
def chunksPrefixed {τ : Type} (item : τ → List (List UInt8)) (l : List τ) : List (List UInt8) :=
  putBE 4 l.length :: (l.map item).flatten

/-- the `Write` calls `Encoder.Encode` makes for a value (one per integer, element, point, length prefix) -/
def encodeChunks (E : Env α β) (raw : Bool) : Val α β → List (List UInt8)
  | .u k v => [putBE k v]
  | .fr v => [putBE E.frB v]
  | .fp v => [putBE E.fpB v]
  | .g1 P => [encPt E.C1 raw P]
  | .g2 P => [encPt E.C2 raw P]
  | .g1s l => chunksPrefixed (fun P => [encPt E.C1 raw P]) l
  | .g2s l => chunksPrefixed (fun P => [encPt E.C2 raw P]) l
  | .frs l => chunksPrefixed (fun x => [putBE E.frB x]) l
  | .fps l => chunksPrefixed (fun x => [putBE E.fpB x]) l
  | .frss l => chunksPrefixed (chunksPrefixed (fun x => [putBE E.frB x])) l
  | .frsss l => chunksPrefixed (chunksPrefixed (chunksPrefixed (fun x => [putBE E.frB x]))) l
  | .u64s l => chunksPrefixed (fun x => [putBE 8 x]) l
  | .u64ss l => chunksPrefixed (chunksPrefixed (fun x => [putBE 8 x])) l

/-- `Encode(v)` on the writer `w`: the bytes the writer accepted during the call (`BytesWritten` advances by their
number), whether `Encode` returns an error, the writer afterwards -/
def encodeTo (E : Env α β) (raw : Bool) (w : Budgets) (v : Val α β) : List UInt8 × Bool × Budgets :=
  wChunks w (encodeChunks E raw v)

/-- successive `Encode` calls on ONE `Encoder` (the calls go on after a failed one): per call the bytes accepted and
the error flag -/
def encodeSeqTo (E : Env α β) (raw : Bool) : Budgets → List (Val α β) → List (List UInt8 × Bool)
  | _, [] => []
  | w, v :: vs =>
    let r := encodeTo E raw w v
    (r.1, r.2.1) :: encodeSeqTo E raw r.2.2 vs

end GV.PointCodec
