import GnarkVerif.Model.Util
/-
Executable reference algebra (core-only): prime fields on `Nat`, generic quadratic / cubic extensions given by a
dictionary of operations, short-Weierstrass and twisted-Edwards affine group laws, integer scalar multiplication.
This is the *specification side* used by the correspondence of C02–C07, C11–C13: deliberately the textbook
definitions (schoolbook products, chord-and-tangent with explicit case split), not the optimised Go formulas.
-/
namespace GV.Alg

/-- dictionary of field operations over a carrier `α` (regular, non-Montgomery values) -/
structure FOps (α : Type) where
  zero : α
  one : α
  add : α → α → α
  sub : α → α → α
  neg : α → α
  mul : α → α → α
  inv : α → α          -- 0 ↦ 0
  beq : α → α → Bool
  ofNat : Nat → α
  show_ : α → String   -- canonical rendering (coordinates hex, comma separated)

/-- F_q on `Nat` (q prime) -/
def fp (q : Nat) : FOps Nat where
  zero := 0
  one := 1 % q
  add a b := (a + b) % q
  sub a b := (a + q - b % q) % q
  neg a := (q - a % q) % q
  mul a b := (a * b) % q
  inv a := powMod a (q - 2) q
  beq a b := a % q == b % q
  ofNat n := n % q
  show_ a := toHex a

/-- quadratic extension `F[u]/(u² − β)`, schoolbook product -/
def quad {α : Type} (F : FOps α) (β : α) : FOps (α × α) where
  zero := (F.zero, F.zero)
  one := (F.one, F.zero)
  add a b := (F.add a.1 b.1, F.add a.2 b.2)
  sub a b := (F.sub a.1 b.1, F.sub a.2 b.2)
  neg a := (F.neg a.1, F.neg a.2)
  mul a b := (F.add (F.mul a.1 b.1) (F.mul β (F.mul a.2 b.2)), F.add (F.mul a.1 b.2) (F.mul a.2 b.1))
  inv a :=
    -- (a0 − a1 u)/(a0² − β a1²)
    let n := F.sub (F.mul a.1 a.1) (F.mul β (F.mul a.2 a.2))
    let ni := F.inv n
    (F.mul a.1 ni, F.neg (F.mul a.2 ni))
  beq a b := F.beq a.1 b.1 && F.beq a.2 b.2
  ofNat n := (F.ofNat n, F.zero)
  show_ a := F.show_ a.1 ++ "," ++ F.show_ a.2

/-- cubic extension `F[v]/(v³ − ξ)`, schoolbook product -/
def cubic {α : Type} (F : FOps α) (ξ : α) : FOps (α × α × α) where
  zero := (F.zero, F.zero, F.zero)
  one := (F.one, F.zero, F.zero)
  add a b := (F.add a.1 b.1, F.add a.2.1 b.2.1, F.add a.2.2 b.2.2)
  sub a b := (F.sub a.1 b.1, F.sub a.2.1 b.2.1, F.sub a.2.2 b.2.2)
  neg a := (F.neg a.1, F.neg a.2.1, F.neg a.2.2)
  mul a b :=
    let (a0, a1, a2) := a; let (b0, b1, b2) := b
    (F.add (F.mul a0 b0) (F.mul ξ (F.add (F.mul a1 b2) (F.mul a2 b1))),
     F.add (F.add (F.mul a0 b1) (F.mul a1 b0)) (F.mul ξ (F.mul a2 b2)),
     F.add (F.add (F.mul a0 b2) (F.mul a1 b1)) (F.mul a2 b0))
  inv a :=
    let (a0, a1, a2) := a
    -- adjugate / norm
    let c0 := F.sub (F.mul a0 a0) (F.mul ξ (F.mul a1 a2))
    let c1 := F.sub (F.mul ξ (F.mul a2 a2)) (F.mul a0 a1)
    let c2 := F.sub (F.mul a1 a1) (F.mul a0 a2)
    let n := F.add (F.mul a0 c0) (F.mul ξ (F.add (F.mul a2 c1) (F.mul a1 c2)))
    let ni := F.inv n
    (F.mul c0 ni, F.mul c1 ni, F.mul c2 ni)
  beq a b := F.beq a.1 b.1 && F.beq a.2.1 b.2.1 && F.beq a.2.2 b.2.2
  ofNat n := (F.ofNat n, F.zero, F.zero)
  show_ a := F.show_ a.1 ++ "," ++ F.show_ a.2.1 ++ "," ++ F.show_ a.2.2

/-- x^e by square and multiply (e : Nat) -/
def FOps.pow {α : Type} (F : FOps α) (x : α) (e : Nat) : α :=
  let rec go (fuel : Nat) (b : α) (e : Nat) (acc : α) : α :=
    match fuel with
    | 0 => acc
    | f+1 => if e = 0 then acc else go f (F.mul b b) (e/2) (if e % 2 = 1 then F.mul acc b else acc)
  go (e.log2 + 1) x e F.one

/-! ### short Weierstrass curves  y² = x³ + a·x + b  (affine, `none` = point at infinity) -/

structure Curve (α : Type) where
  F : FOps α
  a : α
  b : α

abbrev Pt (α : Type) := Option (α × α)

namespace Curve
variable {α : Type} (E : Curve α)

def onCurve : Pt α → Bool
  | none => true
  | some (x, y) =>
    let F := E.F
    F.beq (F.mul y y) (F.add (F.add (F.mul x (F.mul x x)) (F.mul E.a x)) E.b)

def neg : Pt α → Pt α
  | none => none
  | some (x, y) => some (x, E.F.neg y)

/-- textbook chord-and-tangent addition -/
def add (P Q : Pt α) : Pt α :=
  let F := E.F
  match P, Q with
  | none, Q => Q
  | P, none => P
  | some (x1, y1), some (x2, y2) =>
    if F.beq x1 x2 then
      if F.beq y1 y2 && !(F.beq y1 F.zero) then
        -- tangent
        let l := F.mul (F.add (F.mul (F.ofNat 3) (F.mul x1 x1)) E.a) (F.inv (F.add y1 y1))
        let x3 := F.sub (F.sub (F.mul l l) x1) x1
        some (x3, F.sub (F.mul l (F.sub x1 x3)) y1)
      else none
    else
      let l := F.mul (F.sub y2 y1) (F.inv (F.sub x2 x1))
      let x3 := F.sub (F.sub (F.mul l l) x1) x2
      some (x3, F.sub (F.mul l (F.sub x1 x3)) y1)

def double (P : Pt α) : Pt α := E.add P P

/-- [k]P for k : Nat, double-and-add (least significant bit first) -/
def smulNat (k : Nat) (P : Pt α) : Pt α :=
  let rec go (fuel : Nat) (k : Nat) (B acc : Pt α) : Pt α :=
    match fuel with
    | 0 => acc
    | f+1 => if k = 0 then acc else go f (k/2) (E.add B B) (if k % 2 = 1 then E.add acc B else acc)
  go (k.log2 + 1) k P none

/-- [k]P for every integer k -/
def smul (k : Int) (P : Pt α) : Pt α :=
  if k < 0 then E.neg (E.smulNat k.natAbs P) else E.smulNat k.natAbs P

def beq (P Q : Pt α) : Bool :=
  match P, Q with
  | none, none => true
  | some (x1, y1), some (x2, y2) => E.F.beq x1 x2 && E.F.beq y1 y2
  | _, _ => false

def showPt : Pt α → String
  | none => "inf"
  | some (x, y) => E.F.show_ x ++ ";" ++ E.F.show_ y

end Curve

/-! ### twisted Edwards curves  a·x² + y² = 1 + d·x²y²  (affine, identity (0,1)) -/

structure TECurve where
  q : Nat
  a : Nat
  d : Nat

namespace TECurve
variable (E : TECurve)

def onCurve (P : Nat × Nat) : Bool :=
  let F := fp E.q
  let x2 := F.mul P.1 P.1; let y2 := F.mul P.2 P.2
  F.add (F.mul E.a x2) y2 == F.add 1 (F.mul E.d (F.mul x2 y2))

/-- unified affine addition law -/
def add (P Q : Nat × Nat) : Nat × Nat :=
  let F := fp E.q
  let (x1, y1) := P; let (x2, y2) := Q
  let t := F.mul E.d (F.mul (F.mul x1 x2) (F.mul y1 y2))
  (F.mul (F.add (F.mul x1 y2) (F.mul y1 x2)) (F.inv (F.add 1 t)),
   F.mul (F.sub (F.mul y1 y2) (F.mul E.a (F.mul x1 x2))) (F.inv (F.sub 1 t)))

def neg (P : Nat × Nat) : Nat × Nat := ((fp E.q).neg P.1, P.2)

def smulNat (k : Nat) (P : Nat × Nat) : Nat × Nat :=
  let rec go (fuel : Nat) (k : Nat) (B acc : Nat × Nat) : Nat × Nat :=
    match fuel with
    | 0 => acc
    | f+1 => if k = 0 then acc else go f (k/2) (E.add B B) (if k % 2 = 1 then E.add acc B else acc)
  go (k.log2 + 1) k P (0, 1 % E.q)

def smul (k : Int) (P : Nat × Nat) : Nat × Nat :=
  if k < 0 then E.neg (E.smulNat k.natAbs P) else E.smulNat k.natAbs P

end TECurve

end GV.Alg
