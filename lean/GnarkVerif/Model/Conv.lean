import GnarkVerif.Model.Util
import GnarkVerif.Model.FieldOps
/-
C08 — executable model of the conversions of one prime-field package (`element.go`, `vector.go`):
byte codecs (big/little endian, strict and lenient), integer setters, text / JSON, limb views and the
vector codec (`WriteTo / ReadFrom / AsyncReadFrom`). Everything is stated on the *regular* value
`v ∈ [0,q)` of an element (the line protocol carries raw Montgomery limbs; `handle` converts with
`Field.toRegular / Field.toMont`). Core-only: the driver links this file.
-/
namespace GV.Conv

/-! ### base-256 digits (recursive versions, convenient for induction; `Util.beToNat/natToBE` agree, see Proofs/Conv) -/

/-- the `len` low base-256 digits of `n`, least significant first (truncating) -/
def natToLE : Nat → Nat → List UInt8
  | 0, _ => []
  | len+1, n => UInt8.ofNat (n % 256) :: natToLE len (n / 256)

def leToNat : List UInt8 → Nat
  | [] => 0
  | b :: bs => b.toNat + 256 * leToNat bs

/-- exactly `len` big-endian bytes of `n` (truncating the high part) -/
def natToBE (len n : Nat) : List UInt8 := (natToLE len n).reverse

def beToNat (bs : List UInt8) : Nat := leToNat bs.reverse

inductive Err where
  | length    -- wrong slice length for a fixed-size decoder
  | invalid   -- value ≥ q  ("invalid fr.Element encoding")
  | short     -- io.EOF / io.ErrUnexpectedEOF
  | syntax    -- text that big.Int.SetString(·,0) rejects / JSON too long
deriving DecidableEq, Repr

def Err.str : Err → String
  | .length => "err:invalid"   -- the Go code reports both with the same error value
  | .invalid => "err:invalid"
  | .short => "err:short"
  | .syntax => "err:syntax"

/-! ### element ⇄ bytes -/

/-- `Bytes()`, `Marshal()`, `BigEndian.PutElement` -/
def toBytesBE (nbytes v : Nat) : List UInt8 := natToBE nbytes v
/-- `LittleEndian.PutElement` -/
def toBytesLE (nbytes v : Nat) : List UInt8 := natToLE nbytes v

/-- `BigEndian.Element` on an array of exactly `Bytes` bytes: limbs are filled from the bytes, then
`smallerThanModulus` decides -/
def elementBE (q : Nat) (b : List UInt8) : Except Err Nat :=
  let v := beToNat b
  if v < q then .ok v else .error .invalid

def elementLE (q : Nat) (b : List UInt8) : Except Err Nat :=
  let v := leToNat b
  if v < q then .ok v else .error .invalid

/-- `SetBytesCanonical` -/
def setBytesCanonical (q nbytes : Nat) (b : List UInt8) : Except Err Nat :=
  if b.length ≠ nbytes then .error .length else elementBE q b

/-- little-endian strict decoder on a slice (the Go API takes `*[Bytes]byte`, so the length test is the type) -/
def setBytesCanonicalLE (q nbytes : Nat) (b : List UInt8) : Except Err Nat :=
  if b.length ≠ nbytes then .error .length else elementLE q b

/-- `SetBigInt` with its three branches (`v = q`, `0 ≤ v ≤ q` fast path, `big.Int.Mod` = Euclidean remainder) -/
def setBigInt (q : Nat) (v : Int) : Nat :=
  if v = (q : Int) then 0
  else if v ≤ (q : Int) ∧ 0 ≤ v then v.toNat
  else (v % (q : Int)).toNat

/-- `SetBytes`: fast path through `BigEndian.Element` when the length is `Bytes` and the value is canonical,
otherwise `big.Int.SetBytes` then `SetBigInt` -/
def setBytes (q nbytes : Nat) (b : List UInt8) : Nat :=
  if b.length = nbytes then
    match elementBE q b with
    | .ok v => v
    | .error _ => setBigInt q (beToNat b)
  else setBigInt q (beToNat b)

/-- `SetUint64` (`v < 2^64`): the small fields reduce `v % q0` first, the others put `v` in the low limb -/
def setUint64 (q v : Nat) : Nat := v % q

/-- `SetInt64`: absolute value, `SetUint64`, then `Neg` when `v < 0` -/
def setInt64 (q : Nat) (v : Int) : Nat :=
  let a := setUint64 q v.natAbs
  if v < 0 then (if a = 0 then 0 else q - a) else a

/-! ### limb views -/

/-- `Bits()`: the `n` words (of `w` bits) of the regular value, least significant first -/
def bits (w n v : Nat) : List Nat := (List.range n).map (fun i => (v / 2 ^ (w * i)) % 2 ^ w)

/-- `Uint64()` = `Bits()[0]` -/
def uint64 (w v : Nat) : Nat := v % 2 ^ w

/-- `IsUint64()` on the regular value -/
def isUint64 (v : Nat) : Bool := v < 2 ^ 64

/-- `FitsOnOneWord()` looks at the limbs it is given (here: the raw value) -/
def fitsOnOneWord (w raw : Nat) : Bool := raw < 2 ^ w

/-! ### text -/

def digitChar (d : Nat) : Char :=
  if d < 10 then Char.ofNat (48 + d) else Char.ofNat (87 + d)

/-- digits of `n` in base `b`, least significant first, `fuel` bounds the number of digits -/
def digitsLE (b : Nat) : Nat → Nat → List Nat
  | 0, _ => []
  | fuel+1, n => if n < b then [n] else (n % b) :: digitsLE b fuel (n / b)

/-- `strconv.FormatUint / big.Int.Text` for `2 ≤ b ≤ 36` -/
def natText (b n : Nat) : List Char := ((digitsLE b (n + 1) n).reverse).map digitChar

/-- `Text(base)`: in base 10 the values `q-65535 … q-1` print as `-1 … -65535` -/
def text (q v base : Nat) : List Char :=
  let neg := (q - v) % q
  if base = 10 ∧ 0 < neg ∧ neg ≤ 65535 then '-' :: natText 10 neg else natText base v

/-- `MarshalJSON`: a JSON number when at most 15 characters, a JSON string otherwise -/
def marshalJSON (q v : Nat) : List Char :=
  let s := text q v 10
  if s.length ≤ 15 then s else '"' :: s ++ ['"']

def digitVal (c : Char) : Nat :=
  if '0' ≤ c ∧ c ≤ '9' then c.toNat - 48
  else if 'a' ≤ c ∧ c ≤ 'z' then c.toNat - 97 + 10
  else if 'A' ≤ c ∧ c ≤ 'Z' then c.toNat - 65 + 10
  else 99

/-- state of `nat.scan`: value, digit count, "previous char was a digit or the base prefix", "previous char was `_`",
"a misplaced `_` was seen" -/
structure ScanSt where
  acc : Nat
  count : Nat
  prevDigit : Bool
  prevUnd : Bool
  invalSep : Bool

/-- the digit loop of `math/big.nat.scan` (base argument 0, so `_` separators are recognised); `none` when a
character that is not a digit of base `b` is met (`Int.SetString` then fails because input is left over) -/
def scanDigits (b : Nat) : List Char → ScanSt → Option ScanSt
  | [], s => some s
  | c :: cs, s =>
    if c = '_' then
      scanDigits b cs { s with prevDigit := false, prevUnd := true, invalSep := s.invalSep || !s.prevDigit }
    else
      let d := digitVal c
      if d < b then
        scanDigits b cs { acc := s.acc * b + d, count := s.count + 1, prevDigit := true, prevUnd := false, invalSep := s.invalSep }
      else none

/- unsigned literal of `big.Int.SetString(s, 0)`: `0b`/`0o`/`0x` prefixes, a leading `0` followed by anything else means
octal, decimal otherwise; at least one digit, no misplaced `_`; the sign is handled by `parseIntLit` -/
def scanInit (afterPrefix : Bool) : ScanSt :=
  { acc := 0, count := 0, prevDigit := afterPrefix, prevUnd := false, invalSep := false }

/-- base, digits and "a prefix was read" of an unsigned literal -/
def litConfig (s : List Char) : Nat × List Char × Bool :=
  match s with
  | c0 :: c :: tl =>
    if c0 = '0' then
      if c = 'b' ∨ c = 'B' then (2, tl, true)
      else if c = 'o' ∨ c = 'O' then (8, tl, true)
      else if c = 'x' ∨ c = 'X' then (16, tl, true)
      else (8, c :: tl, true)
    else (10, s, false)
  | _ => (10, s, false)

def parseNatLit (s : List Char) : Option Nat :=
  let cfg := litConfig s
  match scanDigits cfg.1 cfg.2.1 (scanInit cfg.2.2) with
  | none => none
  | some st => if st.invalSep || st.prevUnd || st.count = 0 then none else some st.acc

def parseIntLit (s : List Char) : Option Int :=
  match s with
  | c :: r =>
    if c = '-' then (parseNatLit r).map (fun n => - (Int.ofNat n))
    else if c = '+' then (parseNatLit r).map Int.ofNat
    else (parseNatLit s).map Int.ofNat
  | [] => none

/-- `SetString` -/
def setString (q : Nat) (s : List Char) : Except Err Nat :=
  match parseIntLit s with
  | none => .error .syntax
  | some v => .ok (setBigInt q v)

/-- `UnmarshalJSON`: length guard `Bits*3`, one optional leading and one optional trailing quote, then `SetString` -/
def unmarshalJSON (q nbits : Nat) (data : List Char) : Except Err Nat :=
  if data.length > nbits * 3 then .error .syntax else
  let s := match data with
    | c :: t => if c = '"' then t else data
    | [] => data
  let s := if s.getLast? = some '"' then s.dropLast else s
  setString q s

/-! ### vector codec -/

/-- `Vector.WriteTo / MarshalBinary`: `uint32(len)` big-endian, then the `Bytes`-long big-endian entries -/
def writeTo (nbytes : Nat) (v : List Nat) : List UInt8 :=
  natToBE 4 v.length ++ v.flatMap (toBytesBE nbytes)

/-- the entry loop of `ReadFrom`: `io.ReadFull` of `Bytes` bytes, then `BigEndian.Element` -/
def readElems (q nbytes : Nat) : Nat → List UInt8 → Except Err (List Nat)
  | 0, _ => .ok []
  | k+1, bs =>
    if bs.length < nbytes then .error .short else
    match elementBE q (bs.take nbytes) with
    | .error e => .error e
    | .ok x =>
      match readElems q nbytes k (bs.drop nbytes) with
      | .error e => .error e
      | .ok xs => .ok (x :: xs)

/-- `Vector.ReadFrom / UnmarshalBinary`: value and number of bytes consumed -/
def readFrom (q nbytes : Nat) (bs : List UInt8) : Except Err (List Nat × Nat) :=
  if bs.length < 4 then .error .short else
  let len := beToNat (bs.take 4)
  match readElems q nbytes len (bs.drop 4) with
  | .error e => .error e
  | .ok xs => .ok (xs, 4 + len * nbytes)

/-- split into `k` chunks of `nbytes` bytes (the caller has checked the length) -/
def chunks (nbytes : Nat) : Nat → List UInt8 → List (List UInt8)
  | 0, _ => []
  | k+1, bs => bs.take nbytes :: chunks nbytes k (bs.drop nbytes)

/-- `Vector.AsyncReadFrom` followed by a receive on the returned channel: the whole payload is read first
(`err:short` when it is incomplete), then every entry is validated -/
def asyncReadFrom (q nbytes : Nat) (bs : List UInt8) : Except Err (List Nat × Nat) :=
  if bs.length < 4 then .error .short else
  let len := beToNat (bs.take 4)
  let body := bs.drop 4
  if body.length < len * nbytes then .error .short else
  let vals := (chunks nbytes len body).map beToNat
  if vals.all (· < q) then .ok (vals, 4 + len * nbytes) else .error .invalid

/-! ### line protocol `C08 <field> <op> <args…>` (elements are raw Montgomery limb values) -/

open GV.Field GV.FieldOps

def bytesToChars (bs : List UInt8) : List Char := bs.map (fun b => Char.ofNat b.toNat)

def showRes (p : Params) : Except Err Nat → String
  | .ok v => "ok " ++ toHex (toMont p v)
  | .error e => e.str

def showVecRes (p : Params) : Except Err (List Nat × Nat) → String
  | .ok (xs, n) => "ok " ++ showList (xs.map (toMont p)) ++ " " ++ toHex n
  | .error e => e.str

def handleOp (fc : Gen.FieldConsts) (op : String) (a : List String) : String :=
  let p := paramsOf fc
  let q := fc.q
  let nb := fc.bytes
  let arg0 := a[0]?.getD "0"
  let raw := parseHexD arg0
  let v := toRegular p raw
  match op with
  | "tobytes" => bytesToHex (toBytesBE nb v)
  | "tobytesle" => bytesToHex (toBytesLE nb v)
  | "setbytes" => toHex (toMont p (setBytes q nb (parseBytes arg0)))
  | "setcanonical" => showRes p (setBytesCanonical q nb (parseBytes arg0))
  | "lecanonical" => showRes p (setBytesCanonicalLE q nb (parseBytes arg0))
  | "setbigint" => toHex (toMont p (setBigInt q (parseInt arg0)))
  | "setint64" => toHex (toMont p (setInt64 q (parseInt arg0)))
  | "setuint64" => toHex (toMont p (setUint64 q raw))
  | "text" =>
    let base := parseInt (a[1]?.getD "a")
    if base < 2 ∨ base > 36 then "panic" else String.ofList (text q v base.toNat)
  | "setstring" => showRes p (setString q (bytesToChars (parseBytes arg0)))
  | "json" => String.ofList (marshalJSON q v)
  | "unjson" => showRes p (unmarshalJSON q fc.bits (bytesToChars (parseBytes arg0)))
  | "bits" => showList (bits fc.word fc.limbs v)
  | "bigint" => toHex v
  | "uint64" => toHex (uint64 fc.word v)
  | "isuint64" => boolStr (isUint64 v)
  | "fitsoneword" => boolStr (fitsOnOneWord fc.word raw)
  | "rt" => "1"
  | "vecrt" =>
    let xs := (parseList arg0).map (toRegular p)
    let bs := writeTo nb xs
    bytesToHex bs ++ " " ++ showVecRes p (readFrom q nb bs)
  | "vecread" | "vecreadx" =>
    let bs := parseBytes arg0
    showVecRes p (readFrom q nb bs) ++ " | " ++ showVecRes p (asyncReadFrom q nb bs)
  | _ => "bad-op"

def handle (args : List String) : String :=
  match args with
  | f :: op :: rest =>
    match lookup f with
    | some fc => handleOp fc op rest
    | none => "bad-op"
  | _ => "bad-op"

end GV.Conv
