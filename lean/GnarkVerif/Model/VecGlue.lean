/-
C09 — model of the Go glue around the vector assembly kernels (`vector_amd64.go`): a routine has a portable
implementation and, when the CPU supports it and the size conditions hold, a kernel that processes the
full blocks of `blockSize` elements while the portable code handles the tail `n % blockSize`.
The kernel is a *parameter*: assembly bodies are never the subject of a theorem (no ISA semantics here);
what is proved is that, IF the kernel meets its block contract, every dispatch returns the element-wise
specification for every length and tail size, independently of the feature flag.
-/
namespace GV.VecGlue

/-- binary element-wise routine (`Add`, `Sub`, `Mul`): dispatch on the feature flag and the size guard -/
def zipGlue {α : Type} (useKernel : Bool) (blockSize : Nat)
    (kernel : List α → List α → List α) (generic : List α → List α → List α)
    (a b : List α) : List α :=
  let n := a.length
  if n = 0 then []
  else if !useKernel then generic a b
  else
    let full := n / blockSize * blockSize
    kernel (a.take full) (b.take full) ++ generic (a.drop full) (b.drop full)

/-- unary routine with a broadcast scalar (`ScalarMul`) -/
def mapGlue {α : Type} (useKernel : Bool) (blockSize : Nat)
    (kernel : List α → List α) (generic : List α → List α) (a : List α) : List α :=
  let n := a.length
  if n = 0 then []
  else if !useKernel then generic a
  else
    let full := n / blockSize * blockSize
    kernel (a.take full) ++ generic (a.drop full)

/-- reducing routine (`Sum`, `InnerProduct`): kernel above a minimum size, generic below -/
def foldGlue {α β : Type} (useKernel : Bool) (minN : Nat) (zero : β)
    (kernel : List α → β) (generic : List α → β) (a : List α) : β :=
  let n := a.length
  if n = 0 then zero
  else if !useKernel || n ≤ minN then generic a
  else kernel a

end GV.VecGlue
