import GnarkVerif.Model.Util
import GnarkVerif.Gen.Fields
/-
C10 — executable model of the generated FFT packages
  /repo/ecc/<curve>/fr/fft/{fft.go,domain.go,bitreverse.go,options.go,kernel_purego.go}
  /repo/field/{goldilocks,koalabear,babybear}/fft/…          (same template)

Everything is defined over a type `R` that only has `+ - * 0 1` (core classes), so that the SAME
definitions are (a) run by the driver on `ZM q` (naturals mod q, explicit `%`) and (b) reasoned
about in Props/C10.lean over an arbitrary Mathlib `CommRing`.

Structure follows the Go code:
  * `difFFT` : butterflies, then recurse on the two halves;   `ditFFT` : recurse, then butterflies;
  * twiddles are either read from the stage tables (`buildTwiddles`) or, for stages
    `< twiddlesStartStage`, generated on the fly from `w` (`powers w h`), `w` being squared on the way down;
  * sub-problems of size 2^k, k ∈ `kers` (32 and 256; only 256 for koalabear/babybear), reached at a stage that has
    tables, are done by the unrolled kernels = breadth-first stage lists (`kerDIF`, `kerDIT`);
  * coset scaling in natural order (DIF forward, DIT inverse) or through the bit-reversed table (DIT forward,
    DIF inverse); inverse scales by `CardinalityInv`.
Not modelled (no functional content, covered by the correspondence sweep over `nbTasks`): which goroutine
evaluates a sub-call, how `parallel.Execute` partitions a butterfly/scaling loop (every partition writes disjoint
indices; the per-chunk start value `at = w^start` is the value the sequential loop has at that index),
skipping the multiplication by `twiddle[0] = 1`.
-/
namespace GV.FFT

section Alg
variable {R : Type} [Add R] [Sub R] [Mul R] [Zero R] [One R]

/-- `w^n` by repeated multiplication (specification-level power) -/
def pw (w : R) : Nat → R
  | 0 => 1
  | n+1 => pw w n * w

/-- `BuildExpTable`: `[1, w, w², …]`, each entry the previous one times `w` -/
def iter (w : R) : R → Nat → List R
  | _, 0 => []
  | x, n+1 => x :: iter w (x * w) n

def powers (w : R) (n : Nat) : List R := iter w 1 n

/-- reverse the low `m` bits of `i` (Go: `bits.Reverse64(i) >> (64-m)` for `i < 2^m`) -/
def bitrev : Nat → Nat → Nat
  | 0, _ => 0
  | m+1, i => 2 * bitrev m (i % 2^m) + (i / 2^m) % 2

/-- `out[i] = a[f i]` (array access for speed) -/
def permute (f : Nat → Nat) (a : List R) : List R :=
  let arr := a.toArray
  (List.range a.length).map (fun i => arr.getD (f i) 0)

/-- `BitReverse(v)`, `len v = 2^m` -/
def bitReverse (m : Nat) (a : List R) : List R := permute (bitrev m) a

/-! #### streaming digest of `BitReverse` on huge vectors given by a formula (op `bitrevbig`: the 2^21 … 2^28 routines)

`bitrev (a+b) (hi·2^b + lo) = bitrev b lo · 2^a + bitrev a hi` (`bitrev_split`, Proofs/FFT.lean): two tables of `bitrev` of
size `2^a`, `2^b` replace the `a+b` recursion steps per index; nothing of size `2^(a+b)` is materialised. -/

/-- `[bitrev a 0, …, bitrev a (2^a−1)]` -/
def bitrevTable (a : Nat) : Array Nat := ((List.range (2^a)).map (bitrev a)).toArray

/-- `bitrev (a+b) i` for `i < 2^(a+b)`, with `pa = 2^a`, `pb = 2^b`, `ta = bitrevTable a`, `tb = bitrevTable b` -/
def bitrevSplit (pa pb : Nat) (ta tb : Array Nat) (i : Nat) : Nat :=
  tb.getD (i % pb) 0 * pa + ta.getD (i / pb) 0

/-- `acc + Σ_{i ≤ j < i+fuel} (j+1)·v[rev j]  mod M`, `v[k] = (k·mult + 1) mod q`  (`M` is an argument, not a literal: the
compiler would re-parse a literal ≥ 2^32 in every iteration) -/
def bitrevDigestLoop (M q mult pa pb : Nat) (ta tb : Array Nat) : Nat → Nat → Nat → Nat
  | 0, _, acc => acc
  | fuel+1, i, acc =>
    bitrevDigestLoop M q mult pa pb ta tb fuel (i+1)
      ((acc + (i+1) * ((bitrevSplit pa pb ta tb i * mult + 1) % q)) % M)

/-- digest `Σ_i (i+1)·BitReverse(v)[i] mod 2^61−1` of `v[k] = (k·mult+1) mod q`, `len v = 2^m` -/
def bitrevDigest (q m mult : Nat) : Nat :=
  let b := m / 2
  let a := m - b
  -- speed only: for `q ≥ 2^62` every `k·mult+1 < 2^(28+16)` is already reduced and `x % 0 = x`; keeps the loop on machine-word naturals
  let q' := if m ≤ 28 ∧ mult < 2^16 ∧ q ≥ 2^62 then 0 else q
  bitrevDigestLoop (2^61 - 1) q' mult (2^a) (2^b) (bitrevTable a) (bitrevTable b) (2^m) 0 0

/-! ### specification: the discrete Fourier transform -/

def dftAt (w : R) (a : List R) (k : Nat) : R :=
  ((List.range a.length).map (fun j => a.getD j 0 * pw w (j*k))).sum

def dft (w : R) (a : List R) : List R := (List.range a.length).map (dftAt w a)

/-- value of the polynomial `Σ a_j X^j` at `x` -/
def evalAt (a : List R) (x : R) : R :=
  ((List.range a.length).map (fun j => a.getD j 0 * pw x j)).sum

/-! ### butterflies -/

/-- DIF butterflies on a block `lo ++ hi` with twiddle row `t` (only `t[0..|lo|)` is used) -/
def bfDIF (t lo hi : List R) : List R :=
  List.zipWith (· + ·) lo hi ++ List.zipWith (· * ·) (List.zipWith (· - ·) lo hi) t

/-- DIT butterflies -/
def bfDIT (t lo hi : List R) : List R :=
  let x := List.zipWith (· * ·) hi t
  List.zipWith (· + ·) lo x ++ List.zipWith (· - ·) lo x

/-! ### plain recursion with on-the-fly twiddles (what the Go code does for `stage < twiddlesStartStage`) -/

def difCore : Nat → R → List R → List R
  | 0, _, a => a
  | m+1, w, a =>
    let h := 2^m
    let lo := a.take h
    let hi := a.drop h
    difCore m (w*w) (List.zipWith (· + ·) lo hi) ++
      difCore m (w*w) (List.zipWith (· * ·) (List.zipWith (· - ·) lo hi) (powers w h))

def ditCore : Nat → R → List R → List R
  | 0, _, a => a
  | m+1, w, a =>
    let h := 2^m
    bfDIT (powers w h) (ditCore m (w*w) (a.take h)) (ditCore m (w*w) (a.drop h))

/-! ### kernels: breadth-first stage lists -/

def mapBlocks (f : List R → List R) (sz : Nat) : Nat → List R → List R
  | 0, _ => []
  | c+1, a => f (a.take sz) ++ mapBlocks f sz c (a.drop sz)

/-- one stage on `c` consecutive blocks of size `2^(k+1)` -/
def stageDIF (t : List R) (k c : Nat) (a : List R) : List R :=
  mapBlocks (fun b => bfDIF t (b.take (2^k)) (b.drop (2^k))) (2^(k+1)) c a

def stageDIT (t : List R) (k c : Nat) (a : List R) : List R :=
  mapBlocks (fun b => bfDIT t (b.take (2^k)) (b.drop (2^k))) (2^(k+1)) c a

/-- `kerDIFNP_<2^k>` on `c` blocks: stage rows `rows[0]` (block size 2^k), `rows[1]` (2^(k-1)), … -/
def kerDIF (rows : List (List R)) : Nat → Nat → List R → List R
  | 0, _, a => a
  | k+1, c, a => kerDIF rows.tail k (2*c) (stageDIF (rows.headD []) k c a)

/-- `kerDITNP_<2^k>`: the same stages in the opposite order -/
def kerDIT (rows : List (List R)) : Nat → Nat → List R → List R
  | 0, _, a => a
  | k+1, c, a => stageDIT (rows.headD []) k c (kerDIT rows.tail k (2*c) a)

/-- rows used by a kernel of size `2^k` entered at table index `s`: `tw[s], …, tw[s+k-2]`, and plain butterflies
    (twiddle 1) for the last stage -/
def kerRows (tw : List (List R)) (s k : Nat) : List (List R) :=
  (List.range (k-1)).map (fun j => tw.getD (s+j) []) ++ [[1]]

/-! ### the recursion of fft.go -/

/-- `buildTwiddles`: `t[i][j] = t[0][j·2^i]`, `t[0] = BuildExpTable(ω, 1+2^(nbStages-1))` -/
def buildTwiddles (w : R) (nbStages : Nat) : List (List R) :=
  if nbStages = 0 then [] else
  let t0 := (powers w (1 + 2^(nbStages-1))).toArray
  (List.range nbStages).map (fun i =>
    (List.range (1 + 2^(nbStages-i-1))).map (fun j => t0.getD (j * 2^i) 0))

/-- `difFFT(a, w, twiddles, twiddlesStartStage, stage, …)`, `len a = 2^m` -/
def difFFT (kers : List Nat) (tw : List (List R)) (tss : Nat) : Nat → R → Nat → List R → List R
  | 0, _, _, a => a
  | m+1, w, stage, a =>
    if tss ≤ stage ∧ kers.contains (m+1) then
      kerDIF (kerRows tw (stage - tss) (m+1)) (m+1) 1 a
    else
      let h := 2^m
      let lo := a.take h
      let hi := a.drop h
      if stage < tss then
        -- innerDIFWithoutTwiddles, then w.Square
        difFFT kers tw tss m (w*w) (stage+1) (List.zipWith (· + ·) lo hi) ++
          difFFT kers tw tss m (w*w) (stage+1)
            (List.zipWith (· * ·) (List.zipWith (· - ·) lo hi) (powers w h))
      else
        -- innerDIFWithTwiddles
        let t := tw.getD (stage - tss) []
        difFFT kers tw tss m w (stage+1) (List.zipWith (· + ·) lo hi) ++
          difFFT kers tw tss m w (stage+1)
            (List.zipWith (· * ·) (List.zipWith (· - ·) lo hi) t)

/-- `ditFFT(a, w, twiddles, twiddlesStartStage, stage, …)`, `len a = 2^m` -/
def ditFFT (kers : List Nat) (tw : List (List R)) (tss : Nat) : Nat → R → Nat → List R → List R
  | 0, _, _, a => a
  | m+1, w, stage, a =>
    if tss ≤ stage ∧ kers.contains (m+1) then
      kerDIT (kerRows tw (stage - tss) (m+1)) (m+1) 1 a
    else
      let h := 2^m
      let lo := ditFFT kers tw tss m (w*w) (stage+1) (a.take h)
      let hi := ditFFT kers tw tss m (w*w) (stage+1) (a.drop h)
      if stage < tss then bfDIT (powers w h) lo hi
      else bfDIT (tw.getD (stage - tss) []) lo hi

/-! ### Domain, FFT, FFTInverse -/

structure Domain (R : Type) where
  m : Nat              -- Cardinality = 2^m
  cardInv : R
  gen : R
  genInv : R
  g : R                -- FrMultiplicativeGen (or the custom shift)
  gInv : R
  precomp : Bool       -- withPrecompute

/-- stage tables and `twiddlesStartStage` for the root `w` (`Generator` or `GeneratorInv`) -/
def tables (d : Domain R) (w : R) : List (List R) × Nat :=
  if d.precomp then (buildTwiddles w d.m, 0)
  else if d.m - 3 > 0 then (buildTwiddles (pw w (2^3)) (d.m - 3), 3)
  else ([], 3)

/-- `domain.FFT(a, decimation, opts…)`; `dif = true` ↔ `DIF`; `len a = 2^d.m` -/
def FFT (kers : List Nat) (d : Domain R) (dif coset : Bool) (a : List R) : List R :=
  let n := a.length
  let a1 :=
    if coset then
      if dif then List.zipWith (· * ·) a (powers d.g n)
      else List.zipWith (· * ·) a (permute (bitrev d.m) (powers d.g n))
    else a
  let tt := tables d d.gen
  if dif then difFFT kers tt.1 tt.2 d.m d.gen 0 a1 else ditFFT kers tt.1 tt.2 d.m d.gen 0 a1

/-- `domain.FFTInverse(a, decimation, opts…)` -/
def FFTInverse (kers : List Nat) (d : Domain R) (dif coset : Bool) (a : List R) : List R :=
  let n := a.length
  let tt := tables d d.genInv
  let a1 := if dif then difFFT kers tt.1 tt.2 d.m d.genInv 0 a else ditFFT kers tt.1 tt.2 d.m d.genInv 0 a
  if !coset then a1.map (· * d.cardInv)
  else if !dif then
    if d.precomp then List.zipWith (fun x t => x * t * d.cardInv) a1 (powers d.gInv n)
    else List.zipWith (· * ·) a1 (iter d.gInv (1 * d.cardInv) n)
  else
    List.zipWith (fun x t => x * t * d.cardInv) a1 (permute (bitrev d.m) (powers d.gInv n))

end Alg

/-! ### executable instance: naturals mod q -/

structure ZM (q : Nat) where
  val : Nat
deriving BEq

instance {q : Nat} : Add (ZM q) := ⟨fun a b => ⟨(a.val + b.val) % q⟩⟩
instance {q : Nat} : Sub (ZM q) := ⟨fun a b => ⟨(a.val + (q - b.val % q)) % q⟩⟩
instance {q : Nat} : Mul (ZM q) := ⟨fun a b => ⟨(a.val * b.val) % q⟩⟩
instance {q : Nat} : Zero (ZM q) := ⟨⟨0⟩⟩
instance {q : Nat} : One (ZM q) := ⟨⟨1 % q⟩⟩

def zm (q : Nat) (n : Nat) : ZM q := ⟨n % q⟩


/-! ### Domain.WriteTo / Domain.ReadFrom (byte level)

`WriteTo`: 8-byte big-endian cardinality, the five field elements in `fr.Bytes` big-endian bytes each (regular form),
one byte for `withPrecompute`. `ReadFrom` as the property demands it: the reader is ANY sequence of chunks and
reading consumes their concatenation (`io.ReadFull` semantics); an element `≥ q` is rejected.
(The Go code uses a bare `r.Read` for the five elements: with a reader that returns short reads it mis-parses — a
finding, see `C10 read`/`C10 readfrom` with chunk < fr.Bytes.) -/

structure DomainRec where
  card : Nat
  cardInv : Nat
  gen : Nat
  genInv : Nat
  g : Nat
  gInv : Nat
  precomp : Bool
deriving DecidableEq, Repr

def encodeDomain (nb : Nat) (d : DomainRec) : List UInt8 :=
  natToBE 8 d.card ++ (natToBE nb d.cardInv ++ (natToBE nb d.gen ++ (natToBE nb d.genInv ++
    (natToBE nb d.g ++ (natToBE nb d.gInv ++ [if d.precomp then 1 else 0])))))

inductive RdErr | eof | range
deriving DecidableEq, Repr

def takeN (n : Nat) (bs : List UInt8) : Except RdErr (List UInt8 × List UInt8) :=
  if bs.length < n then .error .eof else .ok (bs.take n, bs.drop n)

def readElem (nb q : Nat) (bs : List UInt8) : Except RdErr (Nat × List UInt8) :=
  match takeN nb bs with
  | .error e => .error e
  | .ok (x, r) => if beToNat x < q then .ok (beToNat x, r) else .error .range

/-- decode one domain from the front of a byte stream; returns the rest of the stream -/
def decodeDomain (nb q : Nat) (bs : List UInt8) : Except RdErr (DomainRec × List UInt8) :=
  match takeN 8 bs with
  | .error e => .error e
  | .ok (c, r) =>
  match readElem nb q r with
  | .error e => .error e
  | .ok (a1, r) =>
  match readElem nb q r with
  | .error e => .error e
  | .ok (a2, r) =>
  match readElem nb q r with
  | .error e => .error e
  | .ok (a3, r) =>
  match readElem nb q r with
  | .error e => .error e
  | .ok (a4, r) =>
  match readElem nb q r with
  | .error e => .error e
  | .ok (a5, r) =>
  match takeN 1 r with
  | .error e => .error e
  | .ok (b, r) =>
    -- the flag is written as 0 or 1; any other byte is not an encoding `WriteTo` produces
    if beToNat b ≤ 1 then .ok (⟨beToNat c, a1, a2, a3, a4, a5, beToNat b != 0⟩, r) else .error .range

/-- bytes a FAILING `ReadFrom` has taken from the reader (= the count it must return): up to and including the first complete element
    that is not reduced; else the whole stream when it ends inside a field; else (flag byte) the whole encoding -/
def consumedOnError (nb q : Nat) (bs : List UInt8) : Nat :=
  let bad := (List.range 5).find? (fun i =>
    8 + nb * (i + 1) ≤ bs.length && beToNat ((bs.drop (8 + nb * i)).take nb) ≥ q)
  match bad with
  | some i => 8 + nb * (i + 1)
  | none => if bs.length < 8 + 5 * nb + 1 then bs.length else 8 + 5 * nb + 1

/-- `ReadFrom(r)`: a reader is the sequence of chunks its `Read` calls return -/
def readFrom (nb q : Nat) (chunks : List (List UInt8)) : Except RdErr (DomainRec × List UInt8) :=
  decodeDomain nb q chunks.flatten

/-- successive `ReadFrom` calls on ONE stream: call `i` decodes one domain from where call `i-1` stopped; answer: every decoded domain
    with the number of bytes that call consumed, and what is left of the stream after the last call -/
def decodeStream (nb q : Nat) : Nat → List UInt8 → Except RdErr (List (DomainRec × Nat) × List UInt8)
  | 0, bs => .ok ([], bs)
  | n+1, bs =>
    match decodeDomain nb q bs with
    | .error e => .error e
    | .ok (d, r) =>
      match decodeStream nb q n r with
      | .error e => .error e
      | .ok (ds, r') => .ok ((d, bs.length - r.length) :: ds, r')

/-- `WriteTo` of every domain in turn on one writer -/
def encodeStream (nb : Nat) (ds : List DomainRec) : List UInt8 := (ds.map (encodeDomain nb)).flatten

/-! ### two-adicity and `Generator(m)` -/

def nextPow2 (m : Nat) : Nat := if m ≤ 1 then 1 else 2 ^ ((m-1).log2 + 1)

def val2Aux : Nat → Nat → Nat
  | 0, _ => 0
  | f+1, n => if n != 0 && n % 2 == 0 then val2Aux f (n / 2) + 1 else 0

/-- largest `s` with `2^s ∣ n` (`n ≠ 0`) -/
def val2 (n : Nat) : Nat := val2Aux (n.log2 + 1) n

/-- constants of the scalar field of an fft package, as extracted from /repo on this run (Gen/Fields.lean) -/
def constsOf (field : String) : Option GV.Gen.FieldConsts :=
  let nm := if field ∈ ["koalabear", "babybear", "goldilocks"] then field else field.replace "-" "_" ++ "_fr"
  GV.Gen.allFields.find? (fun c => c.name == nm)

/-- the two-adicity of the field: `v2(q-1)`, which must also be the extracted `maxOrderRoot` of the package whose modulus is `q` -/
def adicityOf (field : String) (q : Nat) : Option Nat :=
  match constsOf field with
  | some c =>
    match c.consts.lookup "maxOrderRoot" with
    | some s => if c.q == q && q ≥ 3 && s == val2 (q - 1) then some s else none
    | none => none
  | none => none

/-- `ρ^(2^(s-1)) = -1`: `ρ` has exact order `2^s` -/
def exactOrder (q rho s : Nat) : Bool :=
  powMod rho (2^s) q == 1 % q && (s == 0 || powMod rho (2^(s-1)) q == q - 1)

/-- `Generator(m)` for a field of two-adicity `s` with 2-adic root `ρ`: refused above `2^s`, else `ρ^(2^(s-⌈log2 m⌉))` -/
def generatorOf (q rho s m : Nat) : Option Nat :=
  let k := (nextPow2 m).log2
  if k > s then none else some (powMod rho (2^(s - k)) q)

/-! ### line protocol -/

def parseVec (q : Nat) (s : String) : List (ZM q) :=
  if s == "-" then [] else (s.splitOn ",").map (fun x => zm q (parseHexD x))

def showVec {q : Nat} (v : List (ZM q)) : String :=
  if v.isEmpty then "-" else ",".intercalate (v.map (fun x => toHex x.val))

/-- unrolled kernels present in the package -/
def kernelsOf (field : String) : Option (List Nat) :=
  if field ∈ ["bn254", "bls12-377", "bls12-381", "bls24-315", "bls24-317", "bw6-633", "bw6-761", "goldilocks"] then
    some [5, 8]
  else if field ∈ ["koalabear", "babybear"] then some [8]
  else none

def mkDomain (q m omega g : Nat) (precomp : Bool) : Domain (ZM q) :=
  { m := m, cardInv := zm q (invMod (2^m % q) q), gen := zm q omega, genInv := zm q (invMod omega q),
    g := zm q g, gInv := zm q (invMod g q), precomp := precomp }


/-- common argument block: `<field> <q> <omega> <logn> <dif|dit> <coset> <precomp> <nbTasks> <g> <custom> <vec>` -/
def withArgs (args : List String)
    (k : (q : Nat) → List Nat → Domain (ZM q) → Bool → Bool → List (ZM q) → String) : String :=
  match args with
  | [field, qs, ws, ms, dec, cs, ps, _nb, gs, _custom, vs] =>
    match kernelsOf field, parseHex qs, parseHex ws, parseHex ms, parseHex gs with
    | some kers, some q, some w, some m, some g =>
      if (dec != "dif" && dec != "dit") || q < 2 then "bad-op" else
      let v := parseVec q vs
      if v.length != 2^m then "bad-op" else
      k q kers (mkDomain q m w g (ps == "1")) (dec == "dif") (cs == "1") v
    | _, _, _, _, _ => "bad-op"
  | _ => "bad-op"

/-! ### large transforms by digest (op `big`: sizes 2^11 … 2^22)

The input vector is a formula of the line (`seed`, `K`, `mode`), the answer two weighted digests of the WHOLE output of the same
model functions `FFT` / `FFTInverse` plus four sampled entries (tools/harness/c10_big.go computes the same from the Go output). -/

/-- input stream: `x ← x·A + C mod 2^64`, `h = x >> 16`; `d`: `h·K mod q`; `s`: `h mod 16 = 0 → q−1, 1 → 1, 2 → h·K mod q`, else `0`;
    `c`: `K`; `1`: `K` at position `pos`, `0` elsewhere  (`A`, `C` are arguments, not literals, for the compiler) -/
def bigInputLoop (q K : Nat) (mode : String) (pos : Nat) (A C : UInt64) :
    Nat → Nat → UInt64 → Array Nat → Array Nat × UInt64
  | 0, _, x, acc => (acc, x)
  | fuel+1, i, x, acc =>
    let x' := x * A + C
    let h := (x' >>> 16).toNat
    let v :=
      if mode == "d" then (h * K) % q
      else if mode == "s" then
        (if h % 16 == 0 then q - 1 else if h % 16 == 1 then 1 else if h % 16 == 2 then (h * K) % q else 0)
      else if mode == "c" then K % q
      else (if i == pos then K % q else 0)
    bigInputLoop q K mode pos A C fuel (i+1) x' (acc.push v)

/-- `(i, d1, d2) ↦ (i+1, d1 + (i+1)·(o mod M), d2 + ((i+1)² mod M)·(o mod M))  mod M` -/
def bigDigestStep (M : Nat) (st : Nat × Nat × Nat) (o : Nat) : Nat × Nat × Nat :=
  let w := (st.1 + 1) % M
  let o := o % M
  (st.1 + 1, (st.2.1 + (w * o) % M) % M, (st.2.2 + (((w * w) % M) * o) % M) % M)

def bigSamples (A C : UInt64) (n : Nat) (out : Array Nat) : Nat → UInt64 → List String
  | 0, _ => []
  | k+1, x =>
    let x' := x * A + C
    toHex (out.getD ((x' >>> 16).toNat % n) 0) :: bigSamples A C n out k x'

/-- `big <kind> <field> <q> <omega> <logn> <dif|dit> <coset> <precomp> <nbTasks> <g> <custom> <mode> <seed> <K>` -/
def bigOp (kind : String) (args : List String) : String :=
  match args with
  | [field, qs, ws, ms, dec, cs, ps, _nb, gs, _custom, mode, seeds, ks] =>
    match kernelsOf field, parseHex qs, parseHex ws, parseHex ms, parseHex gs, parseHex seeds, parseHex ks with
    | some kers, some q, some w, some m, some g, some seed, some K =>
      if (dec != "dif" && dec != "dit") || q < 2 || m > 24 || seed ≥ 2^64 || !(["d", "s", "c", "1"].contains mode)
          || !(["fft", "inv", "roundtrip", "rtinv"].contains kind) then "bad-op" else
      let n := 2^m
      let A : UInt64 := 6364136223846793005
      let C : UInt64 := 1442695040888963407
      let (inp, x) := bigInputLoop q K mode (seed % n) A C n 0 (UInt64.ofNat seed) (Array.mkEmpty n)
      let v : List (ZM q) := inp.toList.map (fun a => ⟨a⟩)
      let d := mkDomain q m w g (ps == "1")
      let dif := dec == "dif"
      let coset := cs == "1"
      let r :=
        if kind == "fft" then FFT kers d dif coset v
        else if kind == "inv" then FFTInverse kers d dif coset v
        else if kind == "roundtrip" then FFTInverse kers d (!dif) coset (FFT kers d dif coset v)
        else FFT kers d (!dif) coset (FFTInverse kers d dif coset v)
      let out := (r.map (·.val)).toArray
      let dg := out.foldl (bigDigestStep (2^61 - 1)) (0, 0, 0)
      toHex dg.2.1 ++ " " ++ toHex dg.2.2 ++ " " ++ ",".intercalate (bigSamples A C n out 4 x)
    | _, _, _, _, _, _, _ => "bad-op"
  | _ => "bad-op"

/-! ### `ReadFrom` into a DIRTY receiver (ops `readinto`, `readintotab`)

`readinto <chunk> <rcv> <field> <q> <omega> <logn> <dec> <coset> <precomp> <nb> <g> <custom> <vec>`: the SOURCE domain
`NewDomain(2^logn, precomp, shift g)` is serialised with `WriteTo` and decoded by `d.ReadFrom` where `d` is NOT a fresh `Domain{}` but
the receiver `<rcv>` = `zero` | `<logn'>:<precomp'>:<shift'|->:<n|r>` (a domain of another / the same size, default / custom shift,
with / without tables, made by `NewDomain` (`n`) or by an earlier `ReadFrom` (`r`)). The specification is BY VALUE: the decoded
domain is the one of the stream and nothing of the receiver's previous state survives (`readInto` ignores it). Answer: bytes read, the
exported fields, the precompute flag, then FFT(DIF, coset), FFT(DIT, coset), FFTInverse(DIF, coset), FFTInverse(DIT, coset), FFT(DIF) of
`<vec>` on the domain rebuilt FROM THE DECODED FIELDS. `readintotab`: instead of the transforms the state of the four table accessors
(CosetTable, CosetTableInv, Twiddles, TwiddlesInv): `ok` (present and equal to the powers of the decoded shift / generator) or `err`. -/

/-- `d.ReadFrom(r)` on a receiver whose previous state is `_prev` (any description of it): by value, the previous state is ignored -/
def readInto {ρ : Type} (_prev : ρ) (nb q : Nat) (chunks : List (List UInt8)) : Except RdErr (DomainRec × List UInt8) :=
  readFrom nb q chunks

def recOf {q : Nat} (d : Domain (ZM q)) : DomainRec :=
  ⟨2 ^ d.m, d.cardInv.val, d.gen.val, d.genInv.val, d.g.val, d.gInv.val, d.precomp⟩

def domOf (q : Nat) (r : DomainRec) : Domain (ZM q) :=
  { m := r.card.log2, cardInv := zm q r.cardInv, gen := zm q r.gen, genInv := zm q r.genInv, g := zm q r.g, gInv := zm q r.gInv,
    precomp := r.precomp }

/-- receiver token: `zero` | `<logn ≤ c>:<0|1>:<hex|->:<n|r>` -/
def rcvOK (s : String) : Bool :=
  s == "zero" ||
  match s.splitOn ":" with
  | [l, p, g, k] =>
    (match parseHex l with | some l => l ≤ 12 | none => false) && (p == "0" || p == "1") &&
    (g == "-" || (parseHex g).isSome) && (k == "n" || k == "r")
  | _ => false

def readIntoAnswer (rcv : String) (q : Nat) (kers : List Nat) (src : Domain (ZM q)) (v : List (ZM q)) (tab : Bool) : String :=
  let nb := q.log2 / 8 + 1
  match readInto rcv nb q [encodeDomain nb (recOf src)] with
  | .error .eof => "err:eof"
  | .error .range => "err:range"
  | .ok (r, _) =>
    let hd := " ".intercalate [toHex (8 + 5 * nb + 1), toHex r.card, toHex r.cardInv, toHex r.gen, toHex r.genInv, toHex r.g,
      toHex r.gInv, boolStr r.precomp]
    if tab then hd ++ (if r.precomp then " ok ok ok ok" else " err err err err") else
    let d := domOf q r
    if v.length != 2 ^ d.m then hd ++ " -" else
    hd ++ " " ++ " ".intercalate [showVec (FFT kers d true true v), showVec (FFT kers d false true v),
      showVec (FFTInverse kers d true true v), showVec (FFTInverse kers d false true v), showVec (FFT kers d true false v)]

def listBEq {q : Nat} (a b : List (ZM q)) : Bool := a.map (·.val) == b.map (·.val)

def handle (args : List String) : String :=
  match args with
  | "big" :: kind :: rest => bigOp kind rest
  | "fft" :: rest => withArgs rest (fun _ kers d dif coset v =>
      let r := FFT kers d dif coset v
      -- small sizes: cross-check the model against the DFT specification itself
      if d.m ≤ 4 then
        let src := if dif then v else bitReverse d.m v
        let spec := (List.range v.length).map (fun k =>
          evalAt src (if coset then d.g * pw d.gen k else pw d.gen k))
        let spec := if dif then bitReverse d.m spec else spec
        if listBEq spec r then showVec r else "model-inconsistent"
      else showVec r)
  | "inv" :: rest => withArgs rest (fun _ kers d dif coset v => showVec (FFTInverse kers d dif coset v))
  | "roundtrip" :: rest => withArgs rest (fun _ kers d dif coset v =>
      showVec (FFTInverse kers d (!dif) coset (FFT kers d dif coset v)))
  | "rtinv" :: rest => withArgs rest (fun _ kers d dif coset v =>
      showVec (FFT kers d (!dif) coset (FFTInverse kers d dif coset v)))
  | ["bitrev", _field, ms, vs] =>
    match parseHex ms with
    | some m =>
      let v := parseVec 0 vs  -- raw values (q = 0: `% 0` is the identity)
      if v.length != 2^m then "bad-op" else showVec (bitReverse m v)
    | none => "bad-op"
  | ["bitrevbig", _field, qs, ms, mults] =>
    match parseHex qs, parseHex ms, parseHex mults with
    | some q, some m, some mult =>
      -- v[i] = (i*mult+1) mod q ; digest Σ (i+1)·BitReverse(v)[i] mod 2^61-1 ; then "1": BitReverse∘BitReverse = id
      -- (C10_bitReverse_involution; the Go side compares the twice-reversed vector with v)
      if m > 28 || mult == 0 || mult ≥ 2^16 || mult * 2^(2*m) ≥ 2^62 then "bad-op"   -- range in which the Go digest cannot overflow
      else toHex (bitrevDigest q m mult) ++ " 1"
    | _, _, _ => "bad-op"
  | ["domain", field, qs, roots, ss, mgs, custom, ms] =>
    match parseHex qs, parseHex ss, parseHex mgs, parseHex ms with
    | some q, some s, some mg, some mm =>
      -- `s` is the field's two-adicity (v2(q-1) = the extracted maxOrderRoot), not what the package's Generator accepts
      if adicityOf field q != some s then "bad-op" else
      let x := nextPow2 mm
      let lx := x.log2
      if lx > s then "panic" else
      match (if roots == "-" then none else parseHex roots) with
      | none => "missing-root"   -- the package has no generator of order 2^s: no expected value, every answer differs
      | some root =>
      if !exactOrder q root s then "bad-root" else
      match generatorOf q root s mm with
      | none => "panic"
      | some gen =>
      let ord := powMod gen x q == 1 % q && (lx == 0 || powMod gen (x/2) q == q - 1)
      let _ := custom
      " ".intercalate [toHex x, toHex gen, toHex (invMod gen q), toHex (invMod (x % q) q), toHex (mg % q),
        toHex (invMod mg q), boolStr ord]
    | _, _, _, _ => "bad-op"
  | ["gen", field, qs, roots, ms] =>
    match parseHex qs, parseHex ms with
    | some q, some mm =>
      if mm ≥ 2^64 then "bad-op" else
      match adicityOf field q with
      | none => "bad-op"
      | some s =>
        if roots == "-" then "missing-root" else
        match parseHex roots with
        | none => "bad-op"
        | some root =>
          if !exactOrder q root s then "bad-root" else
          -- ecc.NextPowerOfTwo panics (documented) when the next power of two is not a uint64
          if nextPow2 mm ≥ 2^64 then "panic" else
          match generatorOf q root s mm with
          | none => "err"
          | some gen => toHex gen ++ " " ++ boolStr (exactOrder q gen (nextPow2 mm).log2)
    | _, _ => "bad-op"
  | ["stream", field, qs, nbs, rdr, specs, tls] =>
    match parseHex qs, parseHex nbs, parseHex tls, constsOf field with
    | some q, some nb, some tl, some c =>
      if c.q != q || c.bytes != nb || tl > 2^16
          || !(["bytes", "buffer", "bufio", "plain", "one", "chunk", "pipe", "file"].contains rdr) then "bad-op" else
      let recs : List (Option DomainRec) := (specs.splitOn ",").map (fun sp =>
        match sp.splitOn ":" with
        | [ls, ws, ps, gs, cs] =>
          match parseHex ls, parseHex ws, parseHex gs with
          | some l, some w, some g =>
            if l > 12 || (ps != "0" && ps != "1") || (cs != "0" && cs != "1") || g == 0 || g ≥ q || w == 0 || w ≥ q then none
            else some ⟨2^l, invMod (2^l % q) q, w, invMod w q, g, invMod g q, ps == "1"⟩
          | _, _, _ => none
        | _ => none)
      if recs.isEmpty || recs.length > 8 || recs.any (·.isNone) then "bad-op" else
      let ds := recs.filterMap id
      let trailer : List UInt8 := (List.range tl).map (fun i => UInt8.ofNat ((i * 37 + 11) % 256))
      -- the answer does not depend on the reader kind: call i consumes exactly the i-th encoding, the trailer is left
      match decodeStream nb q ds.length (encodeStream nb ds ++ trailer) with
      | .error .eof => "err:eof"
      | .error .range => "err:range"
      | .ok (rs, rest) =>
        let step := fun (acc : Nat × List String) (r : DomainRec × Nat) =>
          let pos := acc.1 + r.2
          (pos, acc.2 ++ [":".intercalate [toHex r.2, toHex pos, toHex r.1.card, toHex r.1.cardInv, toHex r.1.gen, toHex r.1.genInv,
            toHex r.1.g, toHex r.1.gInv, boolStr r.1.precomp]])
        " ".intercalate ((rs.foldl step (0, [])).2 ++ [toHex rest.length, boolStr (rest == trailer)])
    | _, _, _, _ => "bad-op"
  | ["write", _field, qs, ws, ms, ps, gs, _custom, nbs] =>
    match parseHex qs, parseHex ws, parseHex ms, parseHex gs, parseHex nbs with
    | some q, some w, some m, some g, some nb =>
      bytesToHex (encodeDomain nb ⟨2^m, invMod (2^m % q) q, w % q, invMod w q, g % q, invMod g q, ps == "1"⟩)
    | _, _, _, _, _ => "bad-op"
  | ["read", _field, qs, nbs, chunks, bs] =>
    match parseHex qs, parseHex nbs, parseHex chunks with
    | some q, some nb, some _chunk =>
      -- the answer does not depend on how the reader chunks the bytes
      match readFrom nb q [parseBytes bs] with
      | .error .eof => "err:eof " ++ toHex (consumedOnError nb q (parseBytes bs))
      | .error .range => "err:range " ++ toHex (consumedOnError nb q (parseBytes bs))
      | .ok (d, _) => " ".intercalate [toHex (8 + 5*nb + 1), toHex d.card, toHex d.cardInv, toHex d.gen, toHex d.genInv,
          toHex d.g, toHex d.gInv, boolStr d.precomp]
    | _, _, _ => "bad-op"
  | "readinto" :: _chunk :: rcv :: rest =>
    if !rcvOK rcv then "bad-op" else withArgs rest (fun q kers d _ _ v => readIntoAnswer rcv q kers d v false)
  | "readintotab" :: _chunk :: rcv :: rest =>
    if !rcvOK rcv then "bad-op" else withArgs rest (fun q kers d _ _ v => readIntoAnswer rcv q kers d v true)
  | "readfrom" :: _chunk :: rest => withArgs rest (fun _ kers d dif coset v =>
      -- reading is independent of how the reader chunks the bytes: same domain, same transform
      "1 " ++ showVec (FFT kers d dif coset v))
  | _ => "bad-op"

end GV.FFT
