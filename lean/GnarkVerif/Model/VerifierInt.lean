import GnarkVerif.Model.VerifierRes
/-
Go `int` arithmetic (64-bit two's complement) on exact integers, used by the generated group-level verifier code that computes with a
run-time `int` (`permutation.Proof.size`; tools/goslp/slpgperm.go). Core only.
-/
namespace GV.Gen.Verifier

/-- the Go `int` that an exact integer wraps to: the representative in `[-2^63, 2^63)` -/
def wrap64 (a : Int) : Int := (a + 9223372036854775808) % 18446744073709551616 - 9223372036854775808

/-- the 64-bit pattern of a Go `int` -/
def bits64 (a : Int) : Nat := (a % 18446744073709551616).toNat

/-- Go `a - b` on `int` -/
def i64sub (a b : Int) : Int := wrap64 (a - b)

/-- Go `a & b` on `int` (two's complement) -/
def i64and (a b : Int) : Int := wrap64 (Int.ofNat (bits64 a &&& bits64 b))

/-- Go `a / b` on `int`, `b ≠ 0`: quotient truncated toward zero (wraps for `minInt / -1`) -/
def i64quo (a b : Int) : Int := wrap64 (Int.tdiv a b)

/-- Go `a - b` on `uint64` (values in `[0, 2^64)`) -/
def u64sub (a b : Int) : Int := (a - b) % 18446744073709551616

/-- Go `a & b` on `uint64` -/
def u64and (a b : Int) : Int := Int.ofNat (bits64 a &&& bits64 b)

/-- Go `a / b` on `uint64`, `b ≠ 0` -/
def u64quo (a b : Int) : Int := (Int.tdiv a b) % 18446744073709551616

end GV.Gen.Verifier
