import GnarkVerif.Model.Util
import GnarkVerif.Model.Alg
/-
C03 — hand models of the scalar-multiplication loops of gnark-crypto (core-only, executable).

Every algorithm is written over an abstract group given as a dictionary of operations `GOps G` (add, neg, zero), so that
the same definition is (a) run by the driver on `GV.Alg.Curve` / twisted-Edwards points and (b) the subject of the
theorems of `Props/C03.lean` over a Mathlib `AddCommGroup` (`GOps.ofGroup`).

Go sources mirrored (bn254 shown, the other curves are generated from the same template):
* `ecc/bn254/g1.go`  `mulWindowed`, `mulGLV`, `JointScalarMultiplication`, `BatchScalarMultiplicationG1`
* `ecc/utils.go`     `PrecomputeLattice`, `SplitScalar`, `rounding`, `getVector`
* `ecc/bn254/multiexp.go` `partitionScalars`, `computeNbChunks`, `lastC`
* `ecc/bn254/twistededwards/point.go` `scalarMulWindowed`;  `ecc/bls12-381/bandersnatch/endomorpism.go` `scalarMulGLV`
-/
namespace GV.ScalarMul
open GV GV.Alg

/-- dictionary of group operations -/
structure GOps (G : Type) where
  add : G → G → G
  neg : G → G
  zero : G

variable {G : Type}

/-- `Double` of the Go code (`DoubleAssign`, `Double`): the group law applied to (x, x) -/
def GOps.dbl (O : GOps G) (x : G) : G := O.add x x

/-! ### big.Int views -/

/-- `big.Int.BitLen` of |n| -/
def bitLen (n : Nat) : Nat := if n = 0 then 0 else n.log2 + 1

/-- base-`B` digits of `n`, most significant first, no leading zeros (`[]` for 0):
`big.Int.Bytes()` for `B = 256`; `big.Int.Bits()` reversed for `B = 2^64` -/
def digitsBE (B : Nat) (n : Nat) : List Nat :=
  if _h : n = 0 ∨ B < 2 then [] else digitsBE B (n / B) ++ [n % B]
termination_by n
decreasing_by
  have h1 : n ≠ 0 := fun e => _h (Or.inl e)
  have h2 : 2 ≤ B := Nat.le_of_not_lt (fun e => _h (Or.inr e))
  exact Nat.div_lt_self (Nat.pos_of_ne_zero h1) h2

/-- i-th 64-bit limb (little endian) of a non-negative integer: `fr.Element.Bits()[i]`; 0 beyond the top -/
def limb (n i : Nat) : Nat := (n / 2 ^ (64 * i)) % 2 ^ 64

/-- sign folding used by every loop: the base point is negated when the scalar is negative -/
def signPt (O : GOps G) (s : Int) (q : G) : G := if s < 0 then O.neg q else q

/-! ### `mulWindowed` : 2-bit MSB-first windows over the bytes of |s| -/

def sel3 (a b c : G) : Nat → G
  | 0 => a
  | 1 => b
  | _ => c

/-- window `j` of the byte `w` -/
def mulWindowedStep (O : GOps G) (op0 op1 op2 : G) (w : Nat) (res : G) (j : Nat) : G :=
  let res := O.dbl (O.dbl res)
  let mask := 0xc0 >>> (2 * j)
  let c := (w &&& mask) >>> (6 - 2 * j)
  if c = 0 then res else O.add res (sel3 op0 op1 op2 (c - 1))

/-- the four windows of one byte `w` -/
def mulWindowedByte (O : GOps G) (op0 op1 op2 : G) (res : G) (w : Nat) : G :=
  (List.range 4).foldl (mulWindowedStep O op0 op1 op2 w) res

def mulWindowed (O : GOps G) (s : Int) (q : G) : G :=
  let op0 := signPt O s q
  let op1 := O.dbl op0
  let op2 := O.add op0 op1
  (digitsBE 256 s.natAbs).foldl (mulWindowedByte O op0 op1 op2) O.zero

/-! ### `ecc.PrecomputeLattice`, `ecc.SplitScalar` on `Int` (Euclidean `/ %`, floor shifts, as math/big) -/

structure Lattice where
  v11 : Int
  v12 : Int
  v21 : Int
  v22 : Int
  det : Int
  b1 : Int
  b2 : Int
deriving Repr, DecidableEq

/-- `rounding(n, d)` of utils.go -/
def rounding (n d : Int) : Int :=
  let r := n % d
  let q := n / d
  if r > (d >>> 1) then q + 1 else q

/-- the `for rst[1][0].Cmp(&sqroot) >= 1` loop; rows are `(rᵢ, sᵢ, tᵢ)` -/
def euclidLoop (sq : Int) : Nat → (Int × Int × Int) → (Int × Int × Int) → (Int × Int × Int) × (Int × Int × Int)
  | 0, x, y => (x, y)
  | f+1, (a0, s0, t0), (a1, s1, t1) =>
    if a1 > sq then
      let q := a0 / a1
      euclidLoop sq f (a1, s1, t1) (a0 % a1, s0 - s1 * q, t0 - t1 * q)
    else ((a0, s0, t0), (a1, s1, t1))

/-- the shift `n` shared by `PrecomputeLattice` and `SplitScalar` -/
def latticeShift (det : Int) : Nat := 2 * (((bitLen det.natAbs + 32) >>> 6) <<< 6)

/-- basis selection + `Det`, `b1`, `b2` from the two rows left by the loop -/
def latticeOfRows (x y : Int × Int × Int) : Lattice :=
  let a0 := x.1
  let t0 := x.2.2
  let a1 := y.1
  let t1 := y.2.2
  let q := a0 / a1
  let r' := a0 % a1
  let t' := t0 - t1 * q
  let v11 := a1
  let v12 := -t1
  let v2 : Int × Int := if a0 * a0 + t0 * t0 > r' * r' + t' * t' then (r', -t') else (a0, -t0)
  let v21 := v2.1
  let v22 := v2.2
  let det := v11 * v22 - v12 * v21
  let n := latticeShift det
  { v11 := v11, v12 := v12, v21 := v21, v22 := v22, det := det,
    b1 := rounding (v22 <<< n) det, b2 := rounding (v12 <<< n) det }

/-- fuel of the Euclid loop: remainders at least halve every two steps -/
def euclidFuel (r lam : Int) : Nat := 2 * (bitLen r.natAbs + bitLen lam.natAbs) + 4

def precomputeLattice (r lam : Int) : Lattice :=
  let rows := euclidLoop (Int.ofNat (Nat.sqrt r.natAbs)) (euclidFuel r lam) (r, 1, 0) (lam, 0, 1)
  latticeOfRows rows.1 rows.2

/-- `PrecomputeLattice` divides by the last remainder after the loop: division by zero (Go panics) iff it is 0, which
needs `gcd(r, λ) > √r` — never for a prime `r` and `0 < λ < r` -/
def latticePanics (r lam : Int) : Bool :=
  (euclidLoop (Int.ofNat (Nat.sqrt r.natAbs)) (euclidFuel r lam) (r, 1, 0) (lam, 0, 1)).2.1 == 0

/-- `getVector` then `s − v₀, −v₁` for given rounded coefficients `k1 k2` -/
def splitWith (l : Lattice) (s k1 k2 : Int) : Int × Int :=
  (s - (k1 * l.v11 + k2 * l.v21), -(k1 * l.v12 + k2 * l.v22))

def splitScalar (s : Int) (l : Lattice) : Int × Int :=
  let n := latticeShift l.det
  let k1 := (s * l.b1) >>> n
  let k2 := (-(s * l.b2)) >>> n
  splitWith l s k1 k2

/-! ### Straus–Shamir: 15-entry table, joint 2-bit windows over 64-bit limbs -/

/-- `table[b3b2b1b0 − 1] = b3b2·t3 + b1b0·t0` -/
def table15 (O : GOps G) (t0 t3 : G) : List G :=
  let t1 := O.dbl t0
  let t2 := O.add t1 t0
  let t4 := O.add t3 t0
  let t5 := O.add t3 t1
  let t6 := O.add t3 t2
  let t7 := O.dbl t3
  let t8 := O.add t7 t0
  let t9 := O.add t7 t1
  let t10 := O.add t7 t2
  let t11 := O.add t7 t3
  let t12 := O.add t11 t0
  let t13 := O.add t11 t1
  let t14 := O.add t11 t2
  [t0, t1, t2, t3, t4, t5, t6, t7, t8, t9, t10, t11, t12, t13, t14]

/-- joint window `j` of the limbs `w1 w2` -/
def shamirStep (O : GOps G) (tbl : List G) (w1 w2 : Nat) (res : G) (j : Nat) : G :=
  let res := O.dbl (O.dbl res)
  let mask := (3 <<< 62) >>> (2 * j)
  let b1 := (w1 &&& mask) >>> (62 - 2 * j)
  let b2 := (w2 &&& mask) >>> (62 - 2 * j)
  if b1 ||| b2 = 0 then res else O.add res (tbl.getD ((b2 <<< 2 ||| b1) - 1) O.zero)

/-- the 32 joint windows of one pair of limbs -/
def shamirWord (O : GOps G) (tbl : List G) (w1 w2 : Nat) (res : G) : G :=
  (List.range 32).foldl (shamirStep O tbl w1 w2) res

/-- one iteration of `for i := hiWordIndex; i >= 0; i--` -/
def shamirLimb (O : GOps G) (tbl : List G) (k1 k2 : Nat) (res : G) (i : Nat) : G :=
  shamirWord O tbl (limb k1 i) (limb k2 i) res

def shamirLoop (O : GOps G) (tbl : List G) (k1 k2 : Nat) (hi : Nat) : G :=
  (List.range (hi + 1)).reverse.foldl (shamirLimb O tbl k1 k2) O.zero

/-- Go's `(maxBit − 1) / 64` on `int` (`(0−1)/64 = 0`) -/
def hiWordIndex (b1 b2 : Nat) : Nat :=
  let maxBit := if b2 > b1 then b2 else b1
  (maxBit - 1) / 64

/-- `G?Jac.JointScalarMultiplication` : `r` is the modulus of `fr` (`SetBigInt` reduces the scalars). The Go code
takes `maxBit` from the unreduced |sᵢ| and reads limb `hiWordIndex` of the reduced 4..6-limb array; limbs beyond the
array are 0 here (total model, as the property demands). The Go text now clamps the bound (`jointScalarMulC`, commit 90fc5e6);
`jointPanics` tells where the text BEFORE that commit panicked. -/
def jointScalarMul (O : GOps G) (r : Nat) (s1 s2 : Int) (a1 a2 : G) : G :=
  let k1 := s1.natAbs
  let k2 := s2.natAbs
  let tbl := table15 O (signPt O s1 a1) (signPt O s2 a2)
  shamirLoop O tbl (k1 % r) (k2 % r) (hiWordIndex (bitLen k1) (bitLen k2))

/-- `if hiWordIndex >= fr.Limbs { hiWordIndex = fr.Limbs - 1 }` of the Go text (since /repo commit 90fc5e6): the scalars are reduced
below `r < 2^(64·limbs)`, so the words above `limbs - 1` are not there to be read -/
def clampHi (limbs hi : Nat) : Nat := if hi ≥ limbs then limbs - 1 else hi

/-- `G1Jac.JointScalarMultiplication` AS WRITTEN (with the clamp of the loop bound to the `limbs` words of an `fr.Element`): the
subject of the refinement theorem `C03loop_joint_refines` (Props/C03_loop_gen); equals `jointScalarMul` wherever both make sense
(`C03_jointScalarMulC`) -/
def jointScalarMulC (O : GOps G) (r limbs : Nat) (s1 s2 : Int) (a1 a2 : G) : G :=
  let k1 := s1.natAbs
  let k2 := s2.natAbs
  let tbl := table15 O (signPt O s1 a1) (signPt O s2 a2)
  shamirLoop O tbl (k1 % r) (k2 % r) (clampHi limbs (hiWordIndex (bitLen k1) (bitLen k2)))

/-- index-out-of-range condition of the Go code BEFORE commit 90fc5e6 (`limbs = fr.Limbs`); the current text clamps (`clampHi`) -/
def jointPanics (limbs : Nat) (s1 s2 : Int) : Bool :=
  hiWordIndex (bitLen s1.natAbs) (bitLen s2.natAbs) ≥ limbs

/-- `mulGLV` (and bandersnatch `scalarMulGLV`): `split` is `SplitScalar(·, glvBasis)`, `phi` the endomorphism -/
def mulGLV (O : GOps G) (phi : G → G) (split : Int → Int × Int) (r : Nat) (s : Int) (q : G) : G :=
  let k := split s
  let tbl := table15 O (signPt O k.1 q) (signPt O k.2 (phi q))
  let k1 := k.1.natAbs % r
  let k2 := k.2.natAbs % r
  shamirLoop O tbl k1 k2 (hiWordIndex (bitLen k1) (bitLen k2))

/-- `mulGLV` with the basis produced by `PrecomputeLattice(r, λ)` -/
def mulGLVLattice (O : GOps G) (phi : G → G) (r : Nat) (lam : Int) (s : Int) (q : G) : G :=
  mulGLV O phi (fun s => splitScalar s (precomputeLattice (Int.ofNat r) lam)) r s q

/-! ### signed-digit recoding (`partitionScalars`) and `BatchScalarMultiplicationG1/G2` -/

def computeNbChunks (bits c : Nat) : Nat := (bits + c - 1) / c
def lastC (bits c : Nat) : Nat := c + 1 - (computeNbChunks bits c * c - bits)

/-- the selector of chunk `chunk` applied to the limbs of `scalar` (uint64 arithmetic: the shifted mask is truncated) -/
def selectDigit (limbs c scalar chunk : Nat) : Nat :=
  let mask := (1 <<< c) - 1
  let jc := chunk * c
  let index := jc / 64
  let shift := jc - index * 64
  let smask := (mask <<< shift) % 2 ^ 64
  let multiWord := decide (64 % c ≠ 0) && decide (shift > 64 - c) && decide (index < limbs - 1)
  let lo := (limb scalar index &&& smask) >>> shift
  if multiWord then
    let nbBitsHigh := shift - (64 - c)
    let maskHigh := (1 <<< nbBitsHigh) - 1
    let shiftHigh := c - nbBitsHigh
    lo + ((limb scalar (index + 1) &&& maskHigh) <<< shiftHigh)
  else lo

/-- uint16 encoding of a signed digit -/
def encodeDigit (d : Int) : Nat :=
  if d = 0 then 0 else if d > 0 then (d.toNat <<< 1) % 65536 else (((-d - 1).toNat <<< 1) + 1) % 65536

/-- decoding used by the consumers: even = +(v/2), odd = −(v/2 + 1) -/
def decodeDigit (v : Nat) : Int :=
  if v &&& 1 = 0 then Int.ofNat (v >>> 1) else -(Int.ofNat (v >>> 1) + 1)

/-- signed digits of chunks `chunk, chunk+1, …, nbChunks−2` followed by the unsigned last one;
`sel chunk` is the raw c-bit window of the chunk (`selectDigit`) -/
def recodeFrom (c : Nat) (sel : Nat → Nat) : (todo : Nat) → (chunk : Nat) → (carry : Nat) → List Int
  | 0, chunk, carry => [Int.ofNat (carry + sel chunk)]
  | n+1, chunk, carry =>
    let digit := carry + sel chunk
    if digit > 2 ^ (c - 1) - 1 then
      (Int.ofNat digit - 2 ^ c) :: recodeFrom c sel n (chunk + 1) 1
    else Int.ofNat digit :: recodeFrom c sel n (chunk + 1) 0

/-- signed digits (least significant chunk first) of one scalar `< 2^(64·limbs)` -/
def recode (bits limbs c scalar : Nat) : List Int :=
  let nb := computeNbChunks bits c
  if scalar = 0 then List.replicate nb 0 else recodeFrom c (selectDigit limbs c scalar) (nb - 1) 0 0

/-- the `[]uint16` digits of one scalar as stored by `partitionScalars` -/
def partitionScalar (bits limbs c scalar : Nat) : List Nat := (recode bits limbs c scalar).map encodeDigit

/-- window size chosen by `BatchScalarMultiplication`: cheapest `c ∈ 2..16` by the cost model (uint64 arithmetic), windows
whose last digit would not fit the 16-bit digit encoding (`lastC > 16`) are skipped -/
def bestC (bits nbPoints : Nat) : Nat :=
  let cost (c : Nat) := (1 <<< (c - 1)) + nbPoints * (c + 1) * computeNbChunks bits c
  ((List.range 15).map (· + 2)).foldl (fun (best : Nat × Nat) c =>
    if lastC bits c > 16 then best
    else if cost c % 2 ^ 64 < best.1 then (cost c % 2 ^ 64, c) else best) (2 ^ 64 - 1, 0) |>.2

/-- `baseTable[0] = base`, `baseTable[i] = baseTable[i−1] + base` -/
def baseTableAux (O : GOps G) (base : G) : Nat → G → List G
  | 0, _ => []
  | n+1, cur => cur :: baseTableAux O base n (O.add cur base)

def baseTable (O : GOps G) (base : G) (n : Nat) : List G := baseTableAux O base n base

/-- c doublings -/
def dblN (O : GOps G) : Nat → G → G
  | 0, p => p
  | n+1, p => dblN O n (O.dbl p)

/-- consume one uint16 digit: even = add `table[v/2 − 1]`, odd = subtract `table[v/2]` -/
def addDigit (O : GOps G) (tbl : List G) (p : G) (digit : Nat) : G :=
  if digit = 0 then p
  else if digit &&& 1 = 0 then O.add p (tbl.getD ((digit >>> 1) - 1) O.zero)
  else O.add p (O.neg (tbl.getD (digit >>> 1) O.zero))

/-- one chunk of the per-scalar loop: `c` doublings (except before the top chunk), then the digit -/
def batchStep (O : GOps G) (c : Nat) (tbl : List G) (digits : List Nat) (p : G) (chunk : Nat) : G :=
  let p := if chunk ≠ digits.length - 1 then dblN O c p else p
  addDigit O tbl p (digits.getD chunk 0)

/-- the per-scalar loop of `BatchScalarMultiplication`: `digits` least significant chunk first -/
def batchOne (O : GOps G) (c : Nat) (tbl : List G) (digits : List Nat) : G :=
  (List.range digits.length).reverse.foldl (batchStep O c tbl digits) O.zero

/-- `BatchScalarMultiplication` for a given window size `c` -/
def batchWith (O : GOps G) (bits limbs c : Nat) (base : G) (scalars : List Nat) : List G :=
  let maxC := if c > lastC bits c then c else lastC bits c
  let tbl := baseTable O base (1 <<< (maxC - 1))
  scalars.map (fun s => batchOne O c tbl (partitionScalar bits limbs c s))

def batchScalarMul (O : GOps G) (bits limbs : Nat) (base : G) (scalars : List Nat) : List G :=
  batchWith O bits limbs (bestC bits scalars.length) base scalars

/-- the entries `idx` of `BatchScalarMultiplication` on the `n` scalars `sᵢ = scalarAt i` (the window size depends on `n`
only, every entry on its own scalar only: the other entries need not be computed) -/
def batchSample (O : GOps G) (bits limbs n : Nat) (base : G) (scalarAt : Nat → Nat) (idx : List Nat) : List G :=
  let c := bestC bits n
  let maxC := if c > lastC bits c then c else lastC bits c
  let tbl := baseTable O base (1 <<< (maxC - 1))
  idx.map (fun i => batchOne O c tbl (partitionScalar bits limbs c (scalarAt i)))

/-! ### window-boundary batches (op `batchwin`)

A same-base batch whose scalars are GIVEN BY THEIR WINDOWS of a width `w` chosen on the line (the generator takes the width
the cost model selects for the batch length, for every width it can select): every window below the top one takes a value
of `{0, 1, 2^(w−1)−1, 2^(w−1), 2^(w−1)+1, 2^w−1}` or a hashed one, the window below the top one runs through the six
boundary values (index `i + 2⌊i/9⌋ mod 6`: "no carry" / "carry into the top window" alternate with `i`, flip between `i` and
`i + 9`, and 54 consecutive `i` see every pair), the top window runs (index `i mod 9`) through the boundary values,
`⌊r / 2^(w(nb−1))⌋ − 1`, `… − 2` and a hashed value, clipped to `⌊r / 2^(w(nb−1))⌋ − 1` so that the scalar is reduced
(`C03_winScalar_lt`). A sample of the entries is answered; the table of the model is evaluated lazily (`lazyTable`: the same
values as `baseTable`, `C03_batchSampleWin`). -/

/-- splitmix64 finaliser (uint64 arithmetic) -/
def mix64 (x : Nat) : Nat :=
  let x := x % 2 ^ 64
  let x := ((x ^^^ (x >>> 30)) * 0xBF58476D1CE4E5B9) % 2 ^ 64
  let x := ((x ^^^ (x >>> 27)) * 0x94D049BB133111EB) % 2 ^ 64
  x ^^^ (x >>> 31)

def winHash (seed i j : Nat) : Nat := mix64 (seed + i * 0x9E3779B97F4A7C15 + j * 0xD1B54A32D192ED03 + 1)

/-- boundary values of a `w`-bit window, alternating "below 2^(w−1)" (no carry out) / "at least 2^(w−1)" (carry out) -/
def winBoundary (w k : Nat) : Nat :=
  [0, 2 ^ w - 1, 1, 2 ^ (w - 1), 2 ^ (w - 1) - 1, 2 ^ (w - 1) + 1].getD k 0

/-- raw window `j` of scalar `i` of the family (`nb` windows of `w` bits, `topR = ⌊r / 2^(w(nb−1))⌋`) -/
def winDigit (w nb topR seed i j : Nat) : Nat :=
  let h := winHash seed i j
  if j + 1 = nb then
    let t := [0, 1, 2 ^ (w - 1) - 1, 2 ^ (w - 1), 2 ^ (w - 1) + 1, 2 ^ w - 1, topR - 1, topR - 2, h % 2 ^ w].getD (i % 9) 0
    if t < topR - 1 then t else topR - 1
  else if j + 2 = nb then winBoundary w ((i + 2 * (i / 9)) % 6) % 2 ^ w
  else (if h % 8 < 6 then winBoundary w (h % 8) else (h / 8)) % 2 ^ w

/-- `Σ_{j<m} d j · 2^(w·j)` -/
def winSum (w : Nat) (d : Nat → Nat) : Nat → Nat
  | 0 => 0
  | m+1 => winSum w d m + d m * 2 ^ (w * m)

/-- scalar `i` of the family for an order `r` of `bits` bits -/
def winScalar (bits r w seed i : Nat) : Nat :=
  let nb := computeNbChunks bits w
  winSum w (winDigit w nb (r / 2 ^ (w * (nb - 1))) seed i) nb

/-- `baseTable` evaluated on demand: entry `k < T` is `[k+1]base` (by `mulWindowed`), the default of `getD` beyond -/
def lazyTable (O : GOps G) (base : G) (T k : Nat) : G :=
  if k < T then mulWindowed O (Int.ofNat (k + 1)) base else O.zero

def addDigitF (O : GOps G) (tbl : Nat → G) (p : G) (digit : Nat) : G :=
  if digit = 0 then p
  else if digit &&& 1 = 0 then O.add p (tbl ((digit >>> 1) - 1))
  else O.add p (O.neg (tbl (digit >>> 1)))

def batchStepF (O : GOps G) (c : Nat) (tbl : Nat → G) (digits : List Nat) (p : G) (chunk : Nat) : G :=
  let p := if chunk ≠ digits.length - 1 then dblN O c p else p
  addDigitF O tbl p (digits.getD chunk 0)

/-- `batchOne` with the table given as a function of the index -/
def batchOneF (O : GOps G) (c : Nat) (tbl : Nat → G) (digits : List Nat) : G :=
  (List.range digits.length).reverse.foldl (batchStepF O c tbl digits) O.zero

/-- `batchSample` with the lazily evaluated table -/
def batchSampleWin (O : GOps G) (bits limbs n : Nat) (base : G) (scalarAt : Nat → Nat) (idx : List Nat) : List G :=
  let c := bestC bits n
  let maxC := if c > lastC bits c then c else lastC bits c
  idx.map (fun i => batchOneF O c (lazyTable O base (1 <<< (maxC - 1))) (partitionScalar bits limbs c (scalarAt i)))

/-! ### twisted Edwards `scalarMulWindowed` (double-and-add over the 64-bit words of |s|) -/

def teStep (O : GOps G) (p : G) (w : Nat) (res : G) (k : Nat) : G :=
  let res := O.dbl res
  let kthBit := (w >>> (63 - k)) &&& 1
  if kthBit = 1 then O.add res p else res

def teWord (O : GOps G) (p : G) (res : G) (w : Nat) : G :=
  (List.range 64).foldl (teStep O p w) res

def teScalarMul (O : GOps G) (s : Int) (p1 : G) : G :=
  (digitsBE (2 ^ 64) s.natAbs).foldl (teWord O (signPt O s p1)) O.zero

/-! ## driver side: concrete groups and the line protocol -/

/-- a⁻¹ mod q by the extended Euclidean algorithm (0 ↦ 0) -/
def invModE (a q : Nat) : Nat :=
  let rec go : Nat → Int → Int → Int → Int → Int
    | 0, _, _, _, _ => 0
    | f+1, r0, r1, t0, t1 =>
      if r1 = 0 then (if r0 = 1 then t0 else 0)
      else let qq := r0 / r1; go f r1 (r0 - qq * r1) t1 (t0 - qq * t1)
  ((go (2 * q.log2 + 4) (Int.ofNat q) (Int.ofNat (a % q)) 0 1) % (Int.ofNat q)).toNat

/-- `Alg.fp` with the Euclidean inverse (same values, faster) -/
def fpE (q : Nat) : FOps Nat := { fp q with inv := fun a => invModE a q }

def curveOps {α : Type} (E : Curve α) : GOps (Pt α) := { add := E.add, neg := E.neg, zero := none }

/-- twisted Edwards affine law over `fpE` (as `Alg.TECurve.add`) -/
def teAdd (q a d : Nat) (P Q : Nat × Nat) : Nat × Nat :=
  let F := fpE q
  let (x1, y1) := P; let (x2, y2) := Q
  let t := F.mul d (F.mul (F.mul x1 x2) (F.mul y1 y2))
  -- both denominators with one inversion (1 ± t ≠ 0 on a complete curve)
  let dA := F.add 1 t
  let dB := F.sub 1 t
  let i := F.inv (F.mul dA dB)
  (F.mul (F.add (F.mul x1 y2) (F.mul y1 x2)) (F.mul i dB),
   F.mul (F.sub (F.mul y1 y2) (F.mul a (F.mul x1 x2))) (F.mul i dA))

def teOps (q a d : Nat) : GOps (Nat × Nat) :=
  { add := teAdd q a d, neg := fun P => ((fpE q).neg P.1, P.2), zero := (0, 1 % q) }

/-- reference `[k]P` in a dictionary group: LSB-first double-and-add (the textbook definition, as `Alg.Curve.smul`) -/
def refSmul (O : GOps G) (k : Int) (P : G) : G :=
  let rec go : Nat → Nat → G → G → G
    | 0, _, _, acc => acc
    | f+1, k, B, acc => if k = 0 then acc else go f (k / 2) (O.add B B) (if k % 2 = 1 then O.add acc B else acc)
  let n := go (k.natAbs.log2 + 1) k.natAbs P O.zero
  if k < 0 then O.neg n else n

structure FieldDesc (α : Type) where
  F : FOps α
  ofList : List Nat → α

def splitOn (s : String) (c : Char) : List String := (s.splitOn (String.singleton c))

def parseHexList (s : String) : List Nat := (splitOn s ',').map parseHexD

def listGet (l : List Nat) (i : Nat) : Nat := l.getD i 0

def parsePt {α : Type} (D : FieldDesc α) (s : String) : Pt α :=
  if s = "inf" then none else
  match splitOn s ';' with
  | [x, y] => some (D.ofList (parseHexList x), D.ofList (parseHexList y))
  | _ => none

def parseScalars (s : String) : List Nat := if s = "-" then [] else parseHexList s

/-- common validated context of a short-Weierstrass op line -/
structure Ctx (α : Type) where
  E : Curve α
  r : Nat
  g : Pt α

/-- `full`: also checks `[r]G = O` (done once per group by the `curve` line; the other lines only re-check `G ∈ E`) -/
def mkCtx {α : Type} (D : FieldDesc α) (full : Bool) (a b r g : String) : Option (Ctx α) :=
  let E : Curve α := { F := D.F, a := D.ofList (parseHexList a), b := D.ofList (parseHexList b) }
  let gp := parsePt D g
  let rr := parseHexD r
  if gp.isSome && E.onCurve gp && rr > 1 && (!full || (E.smul (Int.ofNat rr) gp).isNone) then
    some { E := E, r := rr, g := gp } else none

/-- the point `[e]G`, checked against the coordinates on the line -/
def ctxPoint {α : Type} (D : FieldDesc α) (C : Ctx α) (e P : String) : Option (Nat × Pt α) :=
  let ee := parseHexD e
  let p := parsePt D P
  let q := if ee = 0 then none else if ee = 1 then C.g else C.E.smul (Int.ofNat ee) C.g
  if C.E.beq q p then some (ee, p) else none

/-- `[k]G` computed in the exponent: `[k mod r]G`, through the residue of smaller absolute value (`[r]G = O`, checked by the
`curve` line, so `[k']G = −[r − k']G`) -/
def expected {α : Type} (C : Ctx α) (k : Int) : Pt α :=
  let k' := k % (Int.ofNat C.r)
  if 2 * k' > Int.ofNat C.r then C.E.neg (C.E.smul (Int.ofNat C.r - k') C.g) else C.E.smul k' C.g

/-- model result, cross-checked against the specification value computed in the exponent -/
def checked {α : Type} (C : Ctx α) (want : Pt α) (models : List (String × Pt α)) : String :=
  match models.find? (fun m => !(C.E.beq m.2 want)) with
  | some m => "model-mismatch:" ++ m.1
  | none => C.E.showPt want

def runCurve {α : Type} (D : FieldDesc α) (op variant : String) (args : List String) : String :=
  match args with
  | a :: b :: r :: g :: rest =>
    match mkCtx D (op == "curve") a b r g with
    | none => "bad-params"
    | some C =>
      let O := curveOps C.E
      let small (s : Int) : Bool := s.natAbs < 65536
      match op, rest with
      | "curve", [] => "ok"
      | "smx", [w, lam, e, P, s] | "sm", [w, lam, e, P, s] =>
        match ctxPoint D C e P with
        | none => "bad-point"
        | some (ee, p) =>
          if !(["aff", "jac", "jacalias", "base", "basejac"].contains variant) || (variant.startsWith "base" && ee != 1) then "bad-op" else
          let s := parseInt s
          let want := expected C (s * ee)
          -- one hand model per line (chosen by the variant), cross-checked against the value computed in the exponent
          let glv := (variant == "aff" || variant == "base") && w != "-"
          -- `smx`: specification value only (the must-have scalar classes: one scalar multiplication per line)
          let m1 :=
            if op == "smx" then [] else
            if glv then
              let om := D.F.ofNat (parseHexD w)
              let phi : Pt α → Pt α := fun P => match P with | none => none | some (x, y) => some (D.F.mul om x, y)
              [("mulGLV", mulGLVLattice O phi C.r (Int.ofNat (parseHexD lam)) s p)]
            else if variant == "jacalias" then [("teScalarMul", teScalarMul O s p)]
            else [("mulWindowed", mulWindowed O s p)]
          let m3 := if small s then [("smul", C.E.smul s p)] else []
          checked C want (m1 ++ m3)
      | "jointx", [e1, P, e2, Q, s1, s2] | "jointbig", [e1, P, e2, Q, s1, s2] | "joint", [e1, P, e2, Q, s1, s2] =>
        match ctxPoint D C e1 P, ctxPoint D C e2 Q with
        | some (ee1, p), some (ee2, q) =>
          if !(variant == "gen" || (variant == "base" && ee1 == 1)) then "bad-op" else
          let s1 := parseInt s1; let s2 := parseInt s2
          let want := expected C (s1 * ee1 + s2 * ee2)
          let m3 := if small s1 && small s2 then [("smul", C.E.add (C.E.smul s1 p) (C.E.smul s2 q))] else []
          -- `jointx`: specification value only (scalars far outside [0, r): one short multiplication per line)
          let m1 := if op == "jointx" then [] else [("jointScalarMul", jointScalarMul O C.r s1 s2 p q)]
          checked C want (m1 ++ m3)
        | _, _ => "bad-point"
      | "batch", [e, P, ss] =>
        match ctxPoint D C e P with
        | none => "bad-point"
        | some (ee, p) =>
          let scalars := parseScalars ss
          let bits := bitLen C.r
          let limbs := (bits + 63) / 64
          if scalars.any (· ≥ C.r) then "bad-scalar" else
          let got := batchScalarMul O bits limbs p scalars
          let want := scalars.map (fun s => expected C (Int.ofNat s * ee))
          if got.length ≠ want.length then "model-mismatch:length" else
          if (got.zip want).any (fun gw => !(C.E.beq gw.1 gw.2)) then "model-mismatch:batchScalarMul" else
          if want.isEmpty then "-" else " ".intercalate (want.map C.E.showPt)
      | "batchpow", [e, P, n, alpha, beta, idxs] =>
        match ctxPoint D C e P with
        | none => "bad-point"
        | some (ee, p) =>
          let n := parseHexD n; let alpha := parseHexD alpha; let beta := parseHexD beta
          let idx := parseScalars idxs
          if n > 2 ^ 17 || idx.any (· ≥ n) then "bad-op" else
          if alpha ≥ C.r || beta ≥ C.r then "bad-scalar" else
          let bits := bitLen C.r
          let limbs := (bits + 63) / 64
          let scalarAt (i : Nat) : Nat := (beta * powMod alpha i C.r) % C.r
          let got := batchSample O bits limbs n p scalarAt idx
          let want := idx.map (fun i => expected C (Int.ofNat (scalarAt i) * ee))
          if (got.zip want).any (fun gw => !(C.E.beq gw.1 gw.2)) then "model-mismatch:batchScalarMul" else
          if want.isEmpty then "-" else " ".intercalate (want.map C.E.showPt)
      | "batchwin", [e, P, n, w, seed, m, idxs] =>
        match ctxPoint D C e P with
        | none => "bad-point"
        | some (ee, p) =>
          let n := parseHexD n; let w := parseHexD w; let seed := parseHexD seed; let m := parseHexD m
          let idx := parseScalars idxs
          if n > 2 ^ 17 || idx.any (· ≥ n) || w < 2 || w > 16 || seed ≥ 2 ^ 64 then "bad-op" else
          let bits := bitLen C.r
          let limbs := (bits + 63) / 64
          let scalarAt (i : Nat) : Nat := winScalar bits C.r w seed i
          if idx.any (fun i => scalarAt i ≥ C.r) then "bad-scalar" else
          -- the hand model (lazily evaluated table) on the first `m` entries of the sample, the specification value on all
          let got := batchSampleWin O bits limbs n p scalarAt (idx.take m)
          let want := idx.map (fun i => expected C (Int.ofNat (scalarAt i) * ee))
          if (got.zip want).any (fun gw => !(C.E.beq gw.1 gw.2)) then "model-mismatch:batchScalarMul" else
          if want.isEmpty then "-" else " ".intercalate (want.map C.E.showPt)
      | _, _ => "bad-op"
  | _ => "bad-op"

def fdFp (p : Nat) : FieldDesc Nat := { F := fpE p, ofList := fun l => listGet l 0 % p }
def fdFp2 (p β : Nat) : FieldDesc (Nat × Nat) :=
  { F := quad (fpE p) β, ofList := fun l => (listGet l 0 % p, listGet l 1 % p) }
def fdFp4 (p β g0 g1 : Nat) : FieldDesc ((Nat × Nat) × (Nat × Nat)) :=
  { F := quad (quad (fpE p) β) (g0, g1),
    ofList := fun l => ((listGet l 0 % p, listGet l 1 % p), (listGet l 2 % p, listGet l 3 % p)) }

def showInts (l : List Int) : String := " ".intercalate (l.map intToHex)

/-- twisted Edwards lines; `full` (the `tecurve` line): also `[order]B = O` -/
def runTE (full : Bool) (specOnly : Bool) (args : List String) : String :=
  match args with
  | q :: a :: d :: order :: base :: rest =>
    let q := parseHexD q; let a := parseHexD a; let d := parseHexD d; let n := parseHexD order
    let O := teOps q a d
    let pp (s : String) : Nat × Nat := match splitOn s ';' with
      | [x, y] => (parseHexD x % q, parseHexD y % q)
      | _ => (0, 0)
    let B := pp base
    let T : TECurve := { q := q, a := a, d := d }
    if !(q > 2 && n > 1 && T.onCurve B && B != O.zero && (!full || refSmul O (Int.ofNat n) B == O.zero)) then "bad-params"
    else match full, rest with
    | true, [] => "ok"
    | false, [e, P, s] =>
      let p := pp P
      let ee := parseHexD e
      let s := parseInt s
      if refSmul O (Int.ofNat ee) B != p then "bad-point"
      else
        let k' := (s * ee) % (Int.ofNat n)
        -- residue of smaller absolute value (`[n]B = O`, checked by the `tecurve` line)
        let want := if 2 * k' > Int.ofNat n then O.neg (refSmul O (Int.ofNat n - k') B) else refSmul O k' B
        let sh (P : Nat × Nat) := toHex P.1 ++ ";" ++ toHex P.2
        if !specOnly && teScalarMul O s p != want then "model-mismatch:teScalarMul"
        else if s.natAbs < 65536 && refSmul O s p != want then "model-mismatch:smul"
        else sh want
    | _, _ => "bad-op"
  | _ => "bad-op"

/-- `C03 …` -/
def handle (args : List String) : String :=
  match args with
  | ["split", r, lam, s] =>
    let r := parseInt r; let lam := parseInt lam; let s := parseInt s
    if latticePanics r lam then "panic" else
    let l := precomputeLattice r lam
    let k := splitScalar s l
    showInts [l.v11, l.v12, l.v21, l.v22, l.det, k.1, k.2]
  | "te" :: variant :: _curve :: rest =>
    if ["aff", "proj", "ext"].contains variant then runTE false false rest else "bad-op"
  | "tex" :: variant :: _curve :: rest =>
    if ["aff", "proj", "ext"].contains variant then runTE false true rest else "bad-op"
  | "tecurve" :: _ :: _curve :: rest => runTE true false rest
  | op :: variant :: _curve :: _grp :: fld :: rest =>
    if !(["curve", "sm", "smx", "joint", "jointbig", "jointx", "batch", "batchpow", "batchwin"].contains op) then "bad-op" else
    match splitOn fld ':' with
    | ["fp", p] => runCurve (fdFp (parseHexD p)) op variant rest
    | ["fp2", p, β] => runCurve (fdFp2 (parseHexD p) (parseHexD β)) op variant rest
    | ["fp4", p, β, γ] =>
      let g := parseHexList γ
      runCurve (fdFp4 (parseHexD p) (parseHexD β) (listGet g 0) (listGet g 1)) op variant rest
    | _ => "bad-field"
  | _ => "bad-op"

/-! ### Aliasing patterns (`C03 alias <pat> <line>`)

The Go entry points take pointers: the receiver (where the result is written), the point operands and the scalars may be the
SAME object (`p.ScalarMultiplication(&p, s)`, `p.JointScalarMultiplication(&p, &q, s, s)` …). The specification is BY VALUE:
the result is that of the same call on distinct objects holding the same values, whatever the receiver held before. The
harness executes `<line>` with the objects shared as `<pat>` says; the model answers `<line>` and ignores `<pat>`
(`Props/C03.lean`: `C03_alias_by_value`, `C03_alias_irrelevant`).

`<pat>`: `d` all distinct, fresh receiver · `dirty` all distinct, the receiver holds another point before the call ·
`rp` / `rq` receiver is the first / second point operand · `pq` the two point operands are one object · `rpq` all three ·
suffix `+st`: the two scalars are one `*big.Int`. Patterns that identify two operands need equal values on the line. -/

/-- point pattern and "scalars shared" flag of a pattern token -/
def aliasSplit (pat : String) : String × Bool :=
  match [("d+st", "d"), ("dirty+st", "dirty"), ("rp+st", "rp"), ("rq+st", "rq"), ("pq+st", "pq"), ("rpq+st", "rpq")].lookup pat with
  | some p => (p, true)
  | none => (pat, false)

/-- is `pat` a pattern the line admits (purely syntactic: op kind, variant, equal tokens where two operands are one object) -/
def aliasOK (pat : String) (line : List String) : Bool :=
  let (pp, st) := aliasSplit pat
  match line with
  | op :: v :: rest =>
    if op == "sm" || op == "smx" then
      !st && ((["aff", "jac"].contains v && ["d", "dirty", "rp"].contains pp) ||
              (["base", "basejac"].contains v && ["d", "dirty"].contains pp))
    else if op == "te" || op == "tex" then
      !st && ["aff", "proj", "ext"].contains v && ["d", "dirty", "rp"].contains pp
    else if op == "joint" || op == "jointx" then
      match rest.drop 7 with
      | [e1, P, e2, Q, s1, s2] =>
        (!st || s1 == s2) &&
        (if v == "gen" then ["d", "dirty", "rp", "rq"].contains pp || (["pq", "rpq"].contains pp && e1 == e2 && P == Q)
         else v == "base" && ["d", "dirty"].contains pp)
      | _ => false
    else false
  | _ => false

/-- `C03 …` with the aliasing wrapper: the answer to `alias <pat> <line>` is the answer to `<line>` -/
def handleTop (args : List String) : String :=
  match args with
  | "alias" :: pat :: line => if aliasOK pat line then handle line else "bad-op"
  | _ => handle args

end GV.ScalarMul
