/-
C01_limb (tie T at the limb level) — conventions of the generated files `Gen/Limb/<Field>.lean`.

`tools/goslp/limb.go` translates the straight-line word-level Go code of the field packages into `let`-chains over
plain `Nat`; a Go `uintN` value is the natural number it denotes (`< 2^N`), wrap-around is explicit:

* `hi, lo = bits.Mul64(a, b)`      ↦ `hi := a * b / 2^64`, `lo := a * b % 2^64`
* `s, c = bits.Add64(a, b, ci)`    ↦ `s := (a + b + ci) % 2^64`, `c := (a + b + ci) / 2^64`   (`ci` is 0/1: checked by the translator)
* `d, bo = bits.Sub64(a, b, bi)`   ↦ `d := subD 2^64 a b bi`, `bo := subB a b bi`                (`bi` is 0/1: checked)
* `a + b`, `a * b`                 ↦ `(a + b) % 2^64`, `(a * b) % 2^64`;   `a - b` ↦ `subD 2^64 a b 0` (borrow bound to `drop_k`)
* `a >> k`, `a << k`, `a & 1`      ↦ `a / 2^k`, `(a * 2^k) % 2^64`, `a % 2`
* discarded results (`_`) are still bound (`drop_k`); `if c { … }` ↦ both sides computed, `v := if c then v₁ else v₀`.
-/
namespace GV.Limb

/-- borrow out of `a - b - bi` -/
def subB (a b bi : Nat) : Nat := if a < b + bi then 1 else 0

/-- `a - b - bi` modulo `W` (for `a, b < W`, `bi ≤ 1`) -/
def subD (W a b bi : Nat) : Nat := (a + W * subB a b bi - (b + bi)) % W

end GV.Limb
