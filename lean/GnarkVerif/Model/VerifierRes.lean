import GnarkVerif.Model.Util
/-
Result type of the generated group-level verifier code (`Gen/Verifier/*.lean`, written by tools/goslp/slpgroup.go):
a Go `error` value. `ok` is `nil`; `err n` is a non-nil error, `n` = the name of the package-level error variable
(`ErrVerifyOpeningProof`, …), the text of an `errors.New("…")` in the function body, or the name of the uninterpreted
callee that produced it (`deriveGamma`, `SetRandom`).
-/
namespace GV.Gen.Verifier

inductive Res where
  | ok
  | err (name : String)
  deriving DecidableEq, Repr

/-- the verdict error of `kzg.Verify` / `BatchVerifyMultiPoints` -/
def Res.errVerify : Res := .err "ErrVerifyOpeningProof"

end GV.Gen.Verifier

namespace GV.Gen.Verifier

/-- `big.Int.Cmp` -/
def cmpInt (a b : Int) : Int := if a < b then -1 else if a = b then 0 else 1

/-- Go `copy(dst, src)` (and `subtle.ConstantTimeCopy(1, dst, src)`, which additionally panics unless the lengths are equal):
the first `min (len dst) (len src)` bytes of `dst` are replaced -/
def copyBytes (dst src : List UInt8) : List UInt8 := src.take dst.length ++ dst.drop src.length

end GV.Gen.Verifier
