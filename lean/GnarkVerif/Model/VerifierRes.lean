/-
Result type of the generated group-level verifier code (`Gen/Verifier/*.lean`, written by tools/goslp/slpgroup.go):
a Go `error` value. `ok` is `nil`; `err n` is a non-nil error, `n` = the name of the package-level error variable
(`ErrVerifyOpeningProof`, …), the text of an `errors.New("…")` in the function body, or the name of the uninterpreted
callee that produced it (`deriveGamma`, `SetRandom`).
-/
namespace GV.Gen.Verifier

inductive Res where
  | ok
  | err (name : String)
  deriving DecidableEq, Repr

/-- the verdict error of `kzg.Verify` / `BatchVerifyMultiPoints` -/
def Res.errVerify : Res := .err "ErrVerifyOpeningProof"

end GV.Gen.Verifier
