import GnarkVerif.Model.Util
/-
C15 — executable model of fiat-shamir/transcript.go (by-value semantics).

Go code modelled: `NewTranscript`, `Bind`, `ComputeChallenge`.
* the map name ↦ challenge{position,…} is a list in position order (names assumed distinct, as the
  property's quantifier says "an ordered list of challenge names");
* `t.previous` is the position of the last freshly computed challenge;
* the hash is a parameter `H : Bytes → Bytes` (Reset; Write …; Sum(nil) = H of the concatenation).
Slices are values here: the model *is* the no-aliasing specification; the correspondence harness
performs caller-side mutations of every slice handed in or out and the Go results must still agree.
-/
namespace GV.Transcript

abbrev Bytes := List UInt8

structure Chal where
  name : Bytes
  bindings : List Bytes := []
  value : Option Bytes := none
deriving Repr, DecidableEq

structure State where
  chals : List Chal
  prev : Option Nat := none
deriving Repr, DecidableEq

inductive Err | notFound | alreadyComputed | prevNotComputed
deriving Repr, DecidableEq

inductive Op
  | bind (name : Bytes) (v : Bytes)
  | compute (name : Bytes)
deriving Repr, DecidableEq

inductive Out
  | ok                       -- Bind succeeded
  | val (v : Bytes)          -- ComputeChallenge returned v
  | err (e : Err)
deriving Repr, DecidableEq

def init (names : List Bytes) : State := { chals := names.map (fun n => { name := n }) }

def find (cs : List Chal) (name : Bytes) : Option Nat := cs.findIdx? (fun c => c.name = name)

/-- what is fed to the hash for challenge number `i` -/
def preimage (cs : List Chal) (i : Nat) (c : Chal) : Bytes :=
  c.name ++ (if i = 0 then [] else ((cs[i-1]?).bind (·.value)).getD []) ++ c.bindings.flatten

def step (H : Bytes → Bytes) (s : State) : Op → State × Out
  | .bind name v =>
    match find s.chals name with
    | none => (s, .err .notFound)
    | some i =>
      match s.chals[i]? with
      | none => (s, .err .notFound)
      | some c =>
        if c.value.isSome then (s, .err .alreadyComputed)
        else ({ s with chals := s.chals.set i { c with bindings := c.bindings ++ [v] } }, .ok)
  | .compute name =>
    match find s.chals name with
    | none => (s, .err .notFound)
    | some i =>
      match s.chals[i]? with
      | none => (s, .err .notFound)
      | some c =>
        match c.value with
        | some v => (s, .val v)
        | none =>
          if i ≠ 0 ∧ s.prev ≠ some (i-1) then (s, .err .prevNotComputed)
          else
            let v := H (preimage s.chals i c)
            ({ chals := s.chals.set i { c with value := some v }, prev := some i }, .val v)

def run (H : Bytes → Bytes) (s : State) : List Op → State × List Out
  | [] => (s, [])
  | op :: ops =>
    let (s', o) := step H s op
    let (s'', os) := run H s' ops
    (s'', o :: os)

/-! line protocol:  `C15 <hash> <name1,name2,…> <op> <op> …`
    op = `B:<namehex>:<valuehex>` | `C:<namehex>` | `M:<k>` (caller-side mutation: ignored by the by-value model) -/

def errStr : Err → String
  | .notFound => "err:notfound" | .alreadyComputed => "err:computed" | .prevNotComputed => "err:prev"

def outStr : Out → String
  | .ok => "ok" | .val v => bytesToHex v | .err e => errStr e

def parseOp (tok : String) : Option Op :=
  match tok.splitOn ":" with
  | ["B", n, v] => some (.bind (parseBytes n) (parseBytes v))
  | ["C", n] => some (.compute (parseBytes n))
  | _ => none

def handle (H : Bytes → Bytes) (args : List String) : String :=
  match args with
  | names :: ops =>
    let ns := (names.splitOn ",").map parseBytes
    let ops' := ops.filterMap parseOp
    let (_, outs) := run H (init ns) ops'
    " ".intercalate (outs.map outStr)
  | _ => "bad-op"

end GV.Transcript
