import GnarkVerif.Model.Util
import GnarkVerif.Model.Sha256
import GnarkVerif.Model.MiMC
/-
C15 — executable model of fiat-shamir/transcript.go (by-value semantics).

Go code modelled: `NewTranscript`, `Bind`, `ComputeChallenge`.
* the map name ↦ challenge{position,…} is a list in position order (names assumed distinct, as the
  property's quantifier says "an ordered list of challenge names");
* `t.previous` is the position of the last freshly computed challenge;
* the hash is specified on the SEQUENCE OF WRITES (a `hash.Hash` need not be a byte-stream hash):
  `W : Bytes → Option Bytes` says how ONE `Write` call is absorbed (`some` of the bytes actually absorbed,
  `none` = `Write` returned an error), `H : Bytes → Bytes` is `Sum(nil)` as a function of the concatenation of
  the absorbed bytes since `Reset`.  SHA-256: `W = some`.  MiMC: a write shorter than a block is left-padded
  to one block, any other write must be a sequence of canonical field elements (`mimcW`), `H` = Miyaguchi–Preneel.
* `ComputeChallenge` does `Reset; Write(name); [previous-computed check; Write(previous)]; Write(b) for each
  bound b; Sum(nil)`; a failing `Write` makes it return the error before anything is stored (and the deferred
  `Reset` clears the hasher), so the transcript is unchanged (`err:hash`).  The order of the checks is the
  order of the Go code: the name is written before the predecessor check.
Slices are values here: the model *is* the no-aliasing specification; the correspondence harness
performs caller-side mutations of every slice handed in or out and the Go results must still agree.
-/
namespace GV.Transcript

abbrev Bytes := List UInt8

structure Chal where
  name : Bytes
  bindings : List Bytes := []
  value : Option Bytes := none
deriving Repr, DecidableEq

structure State where
  chals : List Chal
  prev : Option Nat := none
deriving Repr, DecidableEq

inductive Err | notFound | alreadyComputed | prevNotComputed | hash
deriving Repr, DecidableEq

inductive Op
  | bind (name : Bytes) (v : Bytes)
  | compute (name : Bytes)
deriving Repr, DecidableEq

inductive Out
  | ok                       -- Bind succeeded
  | val (v : Bytes)          -- ComputeChallenge returned v
  | err (e : Err)
deriving Repr, DecidableEq

def init (names : List Bytes) : State := { chals := names.map (fun n => { name := n }) }

def find (cs : List Chal) (name : Bytes) : Option Nat := cs.findIdx? (fun c => c.name = name)

/-- the `Write` calls issued for challenge number `i`, in order: name, previous value (if `i ≠ 0`), bound values -/
def writes (cs : List Chal) (i : Nat) (c : Chal) : List Bytes :=
  c.name :: ((if i = 0 then [] else [((cs[i-1]?).bind (·.value)).getD []]) ++ c.bindings)

/-- what the hasher has absorbed after these `Write` calls; `none` as soon as one of them is refused -/
def absorb (W : Bytes → Option Bytes) : List Bytes → Option Bytes
  | [] => some []
  | w :: ws =>
    match W w with
    | none => none
    | some a =>
      match absorb W ws with
      | none => none
      | some r => some (a ++ r)

def step (W : Bytes → Option Bytes) (H : Bytes → Bytes) (s : State) : Op → State × Out
  | .bind name v =>
    match find s.chals name with
    | none => (s, .err .notFound)
    | some i =>
      match s.chals[i]? with
      | none => (s, .err .notFound)
      | some c =>
        if c.value.isSome then (s, .err .alreadyComputed)
        else ({ s with chals := s.chals.set i { c with bindings := c.bindings ++ [v] } }, .ok)
  | .compute name =>
    match find s.chals name with
    | none => (s, .err .notFound)
    | some i =>
      match s.chals[i]? with
      | none => (s, .err .notFound)
      | some c =>
        match c.value with
        | some v => (s, .val v)
        | none =>
          match W c.name with
          | none => (s, .err .hash)
          | some _ =>
            if i ≠ 0 ∧ s.prev ≠ some (i-1) then (s, .err .prevNotComputed)
            else
              match absorb W (writes s.chals i c) with
              | none => (s, .err .hash)
              | some bs =>
                ({ chals := s.chals.set i { c with value := some (H bs) }, prev := some i }, .val (H bs))

def run (W : Bytes → Option Bytes) (H : Bytes → Bytes) (s : State) : List Op → State × List Out
  | [] => (s, [])
  | op :: ops =>
    let (s', o) := step W H s op
    let (s'', os) := run W H s' ops
    (s'', o :: os)

/-! ### the two hashes of the property's quantifier -/

/-- one `Write` of `mimc.digest`: left-pad a short write to a block; refuse unless a sequence of canonical elements -/
def mimcW (P : MiMC.Params) (p : Bytes) : Option Bytes :=
  match MiMC.decodeBlocks P (MiMC.pad P p) with
  | some _ => some (MiMC.pad P p)
  | none => none

/-- `Sum(nil)` of `mimc.digest` from the fresh state, as a function of the absorbed bytes -/
def mimcH (P : MiMC.Params) (bs : Bytes) : Bytes :=
  match MiMC.decodeBlocks P bs with
  | some xs => MiMC.encBE P.size (MiMC.mp P 0 xs)
  | none => []

/-! line protocol:  `C15 <hash> <name1,name2,…> <op> <op> …`
    hash = `sha256` | `mimc:<curve>:<c0,c1,…>` | `mimcle:<curve>:<c0,c1,…>` (LittleEndian option); the MiMC round
    constants travel on the line (the Go side refuses the line unless they equal `GetConstants()`);
    op = `B:<namehex>:<valuehex>` | `C:<namehex>` | `M:<k>` (caller-side mutation: ignored by the by-value model) -/

def errStr : Err → String
  | .notFound => "err:notfound" | .alreadyComputed => "err:computed" | .prevNotComputed => "err:prev"
  | .hash => "err:hash"

def outStr : Out → String
  | .ok => "ok" | .val v => bytesToHex v | .err e => errStr e

def parseOp (tok : String) : Option Op :=
  match tok.splitOn ":" with
  | ["B", n, v] => some (.bind (parseBytes n) (parseBytes v))
  | ["C", n] => some (.compute (parseBytes n))
  | _ => none

def handleWH (W : Bytes → Option Bytes) (H : Bytes → Bytes) (args : List String) : String :=
  match args with
  | names :: ops =>
    let ns := (names.splitOn ",").map parseBytes
    let ops' := ops.filterMap parseOp
    let (_, outs) := run W H (init ns) ops'
    " ".intercalate (outs.map outStr)
  | _ => "bad-op"

def handle (args : List String) : String :=
  match args with
  | "sha256" :: rest => handleWH some Sha256.hash rest
  | h :: rest =>
    match h.splitOn ":" with
    | [kind, curve, cs] =>
      if kind == "mimc" || kind == "mimcle" then
        match MiMC.paramsOf curve (MiMC.parseList cs) (kind == "mimcle") with
        | none => "bad-consts"
        | some P => handleWH (mimcW P) (mimcH P) rest
      else "bad-op"
    | _ => "bad-op"
  | _ => "bad-op"

end GV.Transcript
