import GnarkVerif.Model.Util
import GnarkVerif.Model.Sha256
import GnarkVerif.Model.Poseidon2
/-
C16 — executable models of the two Merkle trees.

A. `accumulator/merkletree/{tree.go,verify.go,readers.go}`: the streaming accumulator.
   What is hashed (read from the code, NOT from its comments): `leafSum(h,data) = H(data)` and
   `nodeSum(h,a,b) = H(a ‖ b)` – the RFC-6962 prefixes 0x00 / 0x01 are commented out, there is **no**
   leaf/node domain separation.  The model is parametric in a leaf hash `hl : A → D` and a node hash
   `hn : D → D → D`; the SHA-256 instance is `hl = sha256`, `hn a b = sha256 (a ++ b)`.
   `Tree` = stack of `(height, sum)` (head = most recent = smallest sub-tree) + `currentIndex`, `proofIndex`,
   `proofSet`.  `proofSet[0]` is the leaf *data*, the rest are digests, hence `pleaf : Option A`, `sibs : List D`
   (`len(proofSet) = 0` iff `pleaf = none`; `len(proofSet)-1 = sibs.length` otherwise).
   The unexported flag `cachedTree` is never set anywhere in the package: always false, not modelled.
   uint64 wrap-around of indices is not modelled (indices are `Nat`).

B. `field/koalabear/vortex/merkle.go`: `BuildMerkleTree` (leaves are *digests*, zero-padded to the next power
   of two, no leaf hashing), `Open`, `MerkleProof.Verify`; compression `hn` and the zero digest are parameters.
-/
namespace GV.Merkle

abbrev Bytes := List UInt8

section Spec
variable {A D : Type} [Inhabited D] (hl : A → D) (hn : D → D → D)

/-- Merkle tree hash of RFC 6962 §2.1 (without the prefixes, as in the Go code), with fuel `h`:
    for `0 < |X| ≤ 2^h` it splits at the largest power of two `< |X|` (`GV.Merkle.MTH_split`). -/
def mth : Nat → List A → D
  | 0, X => match X with
    | x :: _ => hl x
    | [] => default
  | h+1, X =>
    if X.length ≤ 2^h then mth h X
    else hn (mth h (X.take (2^h))) (mth h (X.drop (2^h)))

/-- audit path of RFC 6962 §2.1.1, leaf-side sibling first -/
def mpath : Nat → List A → Nat → List D
  | 0, _, _ => []
  | h+1, X, i =>
    if X.length ≤ 2^h then mpath h X i
    else if i < 2^h then mpath h (X.take (2^h)) i ++ [mth hl hn h (X.drop (2^h))]
    else mpath h (X.drop (2^h)) (i - 2^h) ++ [mth hl hn h (X.take (2^h))]

/-- RFC 6962 `MTH` -/
def MTH (L : List A) : D := mth hl hn L.length L
/-- RFC 6962 `PATH` -/
def PATH (L : List A) (i : Nat) : List D := mpath hl hn L.length L i
end Spec

/-! ## A. the streaming accumulator -/
section Acc
variable {A D : Type} (hl : A → D) (hn : D → D → D)

structure Tree (A D : Type) where
  stack : List (Nat × D) := []
  cur : Nat := 0            -- currentIndex
  pidx : Nat := 0           -- proofIndex
  pleaf : Option A := none  -- proofSet[0]
  sibs : List D := []       -- proofSet[1:]
  proofTree : Bool := false

/-- `joinAllSubTrees`, called with head `hd` on top of `rest`; `cur` is `t.currentIndex` at the time of the call.
    `hasLeaf ∧ hd.1 = sibs.length` is `t.head.height == len(t.proofSet)-1`. -/
def joinAll (pidx cur : Nat) (hasLeaf : Bool) : Nat × D → List (Nat × D) → List D → List (Nat × D) × List D
  | hd, [], sibs => ([hd], sibs)
  | hd, nx :: rest, sibs =>
    if hd.1 = nx.1 then
      let sibs' :=
        if hasLeaf ∧ hd.1 = sibs.length then
          (if pidx < (cur / 2^hd.1) * 2^hd.1 then sibs ++ [hd.2] else sibs ++ [nx.2])
        else sibs
      joinAll pidx cur hasLeaf (nx.1 + 1, hn nx.2 hd.2) rest sibs'
    else (hd :: nx :: rest, sibs)

/-- `Tree.Push` -/
def push (t : Tree A D) (data : A) : Tree A D :=
  let pleaf := if t.cur = t.pidx then some data else t.pleaf
  let r := joinAll hn t.pidx t.cur pleaf.isSome (0, hl data) t.stack t.sibs
  { t with pleaf := pleaf, stack := r.1, sibs := r.2, cur := t.cur + 1 }

def pushAll (t : Tree A D) (L : List A) : Tree A D := L.foldl (push hl hn) t

/-- `Tree.PushSubTree` without its two refusals -/
def pushSubTreeRaw (t : Tree A D) (height : Nat) (sum : D) : Tree A D :=
  let r := joinAll hn t.pidx t.cur t.pleaf.isSome (height, sum) t.stack t.sibs
  { t with stack := r.1, sibs := r.2, cur := t.cur + 2^height }

inductive SubErr | containsProofIndex | tooLarge
deriving DecidableEq, Repr

/-- `Tree.PushSubTree` -/
def pushSubTree (t : Tree A D) (height : Nat) (sum : D) : Except SubErr (Tree A D) :=
  let newIndex := t.cur + 2^height
  if t.proofTree ∧ (t.cur = t.pidx ∨ (t.cur < t.pidx ∧ t.pidx < newIndex)) then .error .containsProofIndex
  else match t.stack with
    | hd :: _ => if height > hd.1 then .error .tooLarge else .ok (pushSubTreeRaw hn t height sum)
    | [] => .ok (pushSubTreeRaw hn t height sum)

/-- the loop of `Root`: `current = joinSubTrees(current.next, current)` -/
def rootFold (acc : D) (rest : List (Nat × D)) : D := rest.foldl (fun a e => hn e.2 a) acc

/-- `Tree.Root` (`none` = nil) -/
def root (t : Tree A D) : Option D :=
  match t.stack with
  | [] => none
  | hd :: rest => some (rootFold hn hd.2 rest)

/-- first loop of `Prove`: merge while `current.next.height < len(proofSet)-1` -/
def proveMerge (k : Nat) : D → List (Nat × D) → D × List (Nat × D)
  | c, [] => (c, [])
  | c, nx :: rest => if nx.1 < k then proveMerge k (hn nx.2 c) rest else (c, nx :: rest)

/-- the part of `Prove` after the early return: completes `sibs` from the stack `hd :: rest` -/
def finish (hd : Nat × D) (rest : List (Nat × D)) (sibs : List D) : List D :=
  let (c, rest1) := proveMerge hn sibs.length hd.2 rest
  match rest1 with
  | [] => sibs
  | nx :: rest2 =>
    if nx.1 = sibs.length then sibs ++ [c] ++ rest2.map (·.2)
    else sibs ++ (nx :: rest2).map (·.2)

/-- `Tree.Prove` (precondition `proofTree`, otherwise the Go code panics): root, proofSet as (leaf, siblings),
    proofIndex, numLeaves -/
def prove (t : Tree A D) : Option D × Option A × List D × Nat × Nat :=
  match t.stack, t.pleaf with
  | [], _ => (root hn t, none, [], t.pidx, t.cur)
  | _, none => (root hn t, none, [], t.pidx, t.cur)
  | hd :: rest, some lf => (root hn t, some lf, finish hn hd rest t.sibs, t.pidx, t.cur)

/-- `Tree.SetIndex`: refused (`none`, state unchanged) unless the tree is empty -/
def setIndex (t : Tree A D) (i : Nat) : Option (Tree A D) :=
  if t.stack.isEmpty then some { t with pidx := i, proofTree := true } else none

/-- the calls of a tree history.  `root` and `prove` are the OBSERVATION calls `Root()` / `Prove()`;
    `sub h X` is `PushSubTree(h, s)` with `s` the root of the cached tree over the leaves `X`. -/
inductive HOp (A : Type)
  | push (x : A)
  | sub (h : Nat) (X : List A)
  | root
  | prove

/-- what the caller sees -/
inductive Obs (A D : Type)
  | root (r : Option D)
  | prove (r : Option D × Option A × List D × Nat × Nat)
  | refused (e : SubErr)
deriving DecidableEq

/-- one call: the state it leaves behind and what it returns.  The observation calls leave the state they found
    (`Root` works on copies of the sub-tree stack, `Prove` on a copy of the proof set); a refused `PushSubTree` too. -/
def hstep [Inhabited D] (t : Tree A D) : HOp A → Tree A D × Option (Obs A D)
  | .push x => (push hl hn t x, none)
  | .sub h X =>
    match pushSubTree hn t h (MTH hl hn X) with
    | .ok t' => (t', none)
    | .error e => (t, some (.refused e))
  | .root => (t, some (.root (root hn t)))
  | .prove => (t, some (.prove (prove hn t)))

/-- a history: final state and the observations in order -/
def hrun [Inhabited D] (t : Tree A D) : List (HOp A) → Tree A D × List (Obs A D)
  | [] => (t, [])
  | op :: ops =>
    let r := hstep hl hn t op
    let r' := hrun r.1 ops
    (r'.1, r.2.toList ++ r'.2)

/-- the `for { … }` loop of `VerifyProof`; `rem` = `proofSet[height:]`; result = (sum, stableEnd, rest of proofSet),
    `none` = `return false`.  `fuel` only makes the recursion structural (`numLeaves` is always enough). -/
def verifyLoop (i n : Nat) : Nat → Nat → D → Nat → List D → Option (D × Nat × List D)
  | 0, _, sum, se, rem => some (sum, se, rem)
  | fuel+1, height, sum, se, rem =>
    let start := (i / 2^height) * 2^height
    let end_ := start + 2^height - 1
    if end_ ≥ n then some (sum, se, rem)
    else match rem with
      | [] => none
      | p :: rem' =>
        let sum' := if i - start < 2^(height-1) then hn sum p else hn p sum
        verifyLoop i n fuel (height+1) sum' end_ rem'

/-- value compared with the root by `VerifyProof` (`none` = an early `return false`) -/
def verifySum (leaf : Option A) (sibs : List D) (i n : Nat) : Option D :=
  if i ≥ n then none else
  match leaf with
  | none => none
  | some lf =>
    match verifyLoop hn i n n 1 (hl lf) i sibs with
    | none => none
    | some (sum, se, rem) =>
      if se ≠ n - 1 then
        match rem with
        | [] => none
        | p :: rem' => some (rem'.foldl (fun s q => hn q s) (hn sum p))
      else some (rem.foldl (fun s q => hn q s) sum)

/-- `VerifyProof(h, merkleRoot, proofSet, proofIndex, numLeaves)`; `proofSet = leaf :: sibs` -/
def verifyProof [DecidableEq D] (rt : Option D) (leaf : Option A) (sibs : List D) (i n : Nat) : Bool :=
  match rt with
  | none => false
  | some r => verifySum hl hn leaf sibs i n == some r

/-- `Tree.ReadAll`: cut the stream into segments of `seg` bytes (the last one may be shorter), push each.
    (`seg = 0`: `io.ReadFull` on an empty buffer returns `(0,nil)` forever – the Go code does not terminate; not modelled.) -/
def chunks (seg : Nat) : Nat → List UInt8 → List (List UInt8)
  | 0, _ => []
  | fuel+1, bs => if bs.isEmpty then [] else bs.take seg :: chunks seg fuel (bs.drop seg)

end Acc

def readAll {D : Type} (hl : Bytes → D) (hn : D → D → D) (t : Tree Bytes D) (r : Bytes) (seg : Nat) : Tree Bytes D :=
  pushAll hl hn t (chunks seg r.length r)

/-! ### `io.Reader`s that deliver the stream in pieces

A reader is a list of pieces (a `Read` never crosses a seam: `io.MultiReader`, the Writes of an `io.Pipe`, the refills of a
`bufio.Reader`) plus a policy `pol k req` = the most the `k`-th call delivers when asked for `req` bytes (`iotest.HalfReader`:
`(req+1)/2`, `OneByteReader`: `1`, `0` = the empty read `(0, nil)`).  `Tree.ReadAll` fills every segment with `io.ReadFull`
= `io.ReadAtLeast(r, buf, len(buf))`, which calls `Read` until the segment is full or the reader is at its end. -/
structure Rd where
  pieces : List Bytes
  pol : Nat → Nat → Nat
  calls : Nat := 0

/-- the bytes still to come -/
def Rd.flat (r : Rd) : Bytes := r.pieces.flatten

/-- one `Read(p)`, `len(p) = req`: the bytes delivered and the reader afterwards; `none` = `(0, io.EOF)` -/
def Rd.read (r : Rd) (req : Nat) : Option (Bytes × Rd) :=
  match r.pieces.dropWhile (·.isEmpty) with
  | [] => none
  | c :: rest =>
    let k := min (min req c.length) (r.pol r.calls req)
    some (c.take k, { r with pieces := c.drop k :: rest, calls := r.calls + 1 })

/-- `io.ReadFull` into a buffer with `need` free bytes: (bytes read, reader afterwards, reader at its end).  The fuel bounds the
number of `Read` calls (a reader that returns `(0, nil)` for ever does not let the Go loop terminate; not modelled). -/
def readFull : Nat → Rd → Nat → Bytes → Bytes × Rd × Bool
  | 0, r, _, acc => (acc, r, false)
  | f+1, r, need, acc =>
    if need = 0 then (acc, r, false) else
    match r.read need with
    | none => (acc, r, true)
    | some (b, r') => readFull f r' (need - b.length) (acc ++ b)

/-- the leaves `Tree.ReadAll(r, seg)` pushes: `io.EOF` (nothing read) ends the loop, `io.ErrUnexpectedEOF` marks the short last
segment -/
def readAllR (seg inner : Nat) : Nat → Rd → List Bytes
  | 0, _ => []
  | f+1, r =>
    match readFull inner r seg [] with
    | (s, r', eof) =>
      if s.isEmpty then [] else if eof then [s] else s :: readAllR seg inner f r'

/-! ## B. the Vortex tree -/
section Vortex
variable {D : Type} (hn : D → D → D) (zero : D)

def log2Floor : Nat → Nat → Nat   -- fuel, a
  | 0, _ => 0
  | f+1, a => if a > 1 then log2Floor f (a / 2) + 1 else 0

/-- `log2Ceil` -/
def log2Ceil (a : Nat) : Nat :=
  let fl := log2Floor a a
  if a ≠ 2^fl then fl + 1 else fl

/-- one level up: `levels[i][k] = Compress(levels[i+1][2k], levels[i+1][2k+1])` -/
def parents : List D → List D
  | a :: b :: t => hn a b :: parents t
  | _ => []

/-- levels from the leaves (first) to the root (last); Go stores them in the opposite order -/
def levelsUp : Nat → List D → List (List D)
  | 0, P => [P]
  | d+1, P => P :: levelsUp d (parents hn P)

/-- the padded leaf level of `BuildMerkleTree` (`n ≥ 1`) -/
def padded (leaves : List D) : List D :=
  leaves ++ List.replicate (2^(log2Ceil leaves.length) - leaves.length) zero

def vlevels (leaves : List D) : List (List D) := levelsUp hn (log2Ceil leaves.length) (padded zero leaves)

/-- `Root()` = `Levels[0][0]` -/
def vroot (leaves : List D) : D := ((vlevels hn zero leaves).getLast?.getD []).headD zero

/-- `i ^ 1` -/
def nbr (i : Nat) : Nat := if i % 2 = 0 then i + 1 else i - 1

def openAux : List (List D) → Nat → List D
  | [], _ => []
  | [_], _ => []
  | lvl :: rest, pos => lvl.getD (nbr pos) zero :: openAux rest (pos / 2)

/-- `MerkleTree.Open(i)` for `i ≥ 0`: `none` = "index out of range" (`i ≥ 1 << Depth`) -/
def vopen (leaves : List D) (i : Nat) : Option (List D) :=
  if i ≥ 2^(log2Ceil leaves.length) then none else some (openAux zero (vlevels hn zero leaves) i)

def vfold : Nat → D → List D → D
  | _, cur, [] => cur
  | pos, cur, h :: t => vfold (pos / 2) (if pos % 2 = 1 then hn h cur else hn cur h) t

/-- `MerkleProof.Verify(i, leaf, root)` exactly as written (for `i ≥ 0`): neither the index range nor the proof
    length is checked -/
def vverifyGo [DecidableEq D] (proof : List D) (i : Nat) (leaf root : D) : Bool := vfold hn i leaf proof == root

/-- verification as the property demands, for a tree committed to `n` leaves: index in range, proof length = depth -/
def vverify [DecidableEq D] (n : Nat) (proof : List D) (i : Nat) (leaf root : D) : Bool :=
  decide (i < n) && decide (proof.length = log2Ceil n) && vverifyGo hn proof i leaf root

end Vortex

/-! ## line protocol (correspondence K) -/
section IO
open GV

/-- symbolic digests: the injective, acyclic, domain-separated idealisation used for verdict-only ops -/
inductive Sym
  | leaf (b : Bytes)
  | node (l r : Sym)
  | atom (k : Nat)
deriving DecidableEq, Inhabited

def shaL (b : Bytes) : Bytes := Sha256.hash b
def shaN (a b : Bytes) : Bytes := Sha256.hash (a ++ b)

/-- the j-th leaf of the seeded families used by the harness -/
def leafOf (seed j : Nat) : Bytes := natToBE 8 (seed + j) ++ List.replicate (j % 4) 0xab
def leavesOf (seed n : Nat) : List Bytes := (List.range n).map (leafOf seed)

def optHex (o : Option Bytes) : String := match o with | none => "nil" | some b => bytesToHex b
def proofHex (lf : Option Bytes) (sibs : List Bytes) : String :=
  match lf with
  | none => "nil"
  | some l => ",".intercalate ((l :: sibs).map bytesToHex)

def showProve [DecidableEq D] (hl : Bytes → D) (hn : D → D → D) (sh : D → Bytes) (t : Tree Bytes D) : String :=
  let (rt, lf, sibs, pi, nl) := prove hn t
  s!"{optHex (rt.map sh)} {toHex nl} {proofHex lf (sibs.map sh)} {boolStr (verifyProof hl hn rt lf sibs pi nl)}"

/-- tamperings of (root, proofSet, index) in the symbolic model; `none` = unknown kind -/
def tamper (kind : String) (a : Nat) (n : Nat) (rt : Option Sym) (lf : Option Bytes) (sibs : List Sym) (i : Nat) :
    Option (Option Sym × Option Bytes × List Sym × Nat) :=
  let junk := Sym.atom 777
  match kind with
  | "none" => some (rt, lf, sibs, i)
  | "root" => some (rt.map (fun _ => junk), lf, sibs, i)
  | "rootnil" => some (none, lf, sibs, i)
  | "leaf" => some (rt, lf.map (fun l => if l.isEmpty then l else l.set (a % l.length) ((l.getD (a % l.length) 0) ^^^ 1)), sibs, i)
  | "leafapp" => some (rt, lf.map (· ++ [0]), sibs, i)
  | "sib" => some (rt, lf, if sibs.isEmpty then sibs else sibs.set (a % sibs.length) junk, i)
  | "sibswap" =>
    if a + 1 < sibs.length then some (rt, lf, (sibs.set a (sibs.getD (a+1) junk)).set (a+1) (sibs.getD a junk), i)
    else some (rt, lf, sibs, i)
  | "idx" => some (rt, lf, sibs, a)
  | "drop" => some (rt, lf, if sibs.isEmpty then sibs else sibs.eraseIdx (a % sibs.length), i)
  | "dropleaf" => some (rt, lf.map (fun _ => [0xde, 0xad]), sibs.drop 1, i)
  | "app" => some (rt, lf, if lf.isSome then sibs ++ [junk] else sibs, i)
  | "dup" => some (rt, lf, match sibs.getLast? with | some x => sibs ++ [x] | none => sibs, i)
  | "appleaf" => some (rt, lf, match lf with | some l => sibs ++ [Sym.leaf l] | none => sibs, i)
  | "empty" => some (rt, none, [], i)
  -- bytes an algebraic hasher refuses (no digest exists for them) / a leaf of another length / another root: all CHANGED values
  | "leafnc" => some (rt, lf.map (fun _ => [0xde, 0xad, 1]), sibs, i)
  | "sibnc" => some (rt, lf, if sibs.isEmpty then sibs else sibs.set (a % sibs.length) (Sym.atom 778), i)
  | "leaflen" => some (rt, lf.map (· ++ [1, 1, 1]), sibs, i)
  | "rootnc" => some (rt.map (fun _ => Sym.atom 779), lf, sibs, i)
  | "collapse" =>
    -- leaf := preimage of the a-th node on the path (not a leaf preimage in the idealised model), siblings a.. kept
    if i + 1 = n ∧ 0 < a ∧ a ≤ sibs.length then some (rt, lf.map (fun _ => [0xde, 0xad]), sibs.drop a, i)
    else some (rt, lf, sibs, i)
  | _ => none

/-- cut `b` into consecutive pieces of the given sizes, the rest in a last piece -/
def cutPieces : List Nat → Bytes → List Bytes
  | [], b => [b]
  | k :: ks, b => b.take k :: cutPieces ks (b.drop k)

def blocksOf (k : Nat) : Nat → Bytes → List Bytes
  | 0, _ => []
  | f+1, b => if b.isEmpty then [] else b.take k :: blocksOf k f (b.drop k)

/-- the reader of a spec of the line protocol over the stream `b` (`none` = unknown spec) -/
def readerOf (spec : String) (seg : Nat) (b : Bytes) : Option Rd :=
  let all : Nat → Nat → Nat := fun _ req => req
  match spec.splitOn "=" with
  | ["full"] => some { pieces := [b], pol := all }
  | ["dataerr"] => some { pieces := [b], pol := all }
  | ["half"] => some { pieces := [b], pol := fun _ req => (req + 1) / 2 }
  | ["one"] => some { pieces := [b], pol := fun _ _ => 1 }
  | ["bufio"] => some { pieces := if seg < 16 then blocksOf 16 b.length b else [b], pol := all }
  | [kind, arg] =>
    let sizes := (arg.splitOn ",").map parseHexD
    if sizes.all (· == 0) ∨ sizes.length > 64 then none else
    match kind with
    | "multi" => some { pieces := cutPieces sizes b, pol := all }
    | "pipe" => some { pieces := cutPieces sizes b, pol := all }
    | "chunk" => some { pieces := [b], pol := fun k _ => sizes.getD (k % sizes.length) 0 }
    | "chunkeof" => some { pieces := [b], pol := fun k _ => sizes.getD (k % sizes.length) 0 }
    | _ => none
  | _ => none

/-- the leaves `ReadAll` pushes when it reads the stream `b` through the reader of the spec -/
def readLeaves (spec : String) (seg : Nat) (b : Bytes) : Option (List Bytes) :=
  (readerOf spec seg b).map (readAllR seg ((b.length + 2) * 66) (b.length + 1))

/-- the algebraic hashers of the hash registry: `Write` accepts a sequence of canonical field elements -/
structure AlgHash where
  mimc : Bool
  q : Nat
  eb : Nat   -- bytes per field element
  bs : Nat   -- block size of the hasher

/-- `mimc_<curve>` (MiMC over fr, one element per block), `p2_<pkg>` (Merkle–Damgård over the Poseidon2 compression with the
    default width `t`: `t/2` elements per block) -/
def algHash (name : String) : Option AlgHash :=
  if name.startsWith "mimc_" then do
    let (_, fname, _, _) ← MiMC.instances.find? (·.1 == (name.drop 5).toString)
    let fc ← Gen.allFields.find? (·.name == fname)
    some { mimc := true, q := fc.q, eb := fc.bytes, bs := fc.bytes }
  else if name.startsWith "p2_" then do
    let pk ← Poseidon2.pkgs.find? (·.name == (name.drop 3).toString)
    let fc ← Gen.allFields.find? (·.name == pk.field)
    some { mimc := false, q := fc.q, eb := fc.bytes, bs := (pk.dflt.1 / 2) * fc.bytes }
  else none

/-- what ONE `Write(p)` of the hasher accepts.  MiMC: after the left-padding of a short write, whole blocks, each a canonical
    element.  Merkle–Damgård: blocks of `bs` bytes, the short tail left-padded, each a sequence of canonical elements. -/
def AlgHash.absorbs (H : AlgHash) (p : Bytes) : Bool :=
  if H.mimc then
    let P : MiMC.Params := { q := H.q, d := 0, size := H.bs, consts := [] }
    (MiMC.decodeBlocks P (MiMC.pad P p)).isSome
  else (Poseidon2.chunks H.bs p).all (fun c => (Poseidon2.decodeElems H.q H.eb c).isSome)

/-- which leaves a tree over the hash can hold (`sum` panics when the hasher refuses: the tree is not built) -/
def leafOk (name : String) : Option (Bytes → Bool) :=
  if name == "sha256" then some (fun _ => true) else (algHash name).map (·.absorbs)

def showObs : Option (Obs Bytes Bytes) → String
  | some (.root r) => optHex r
  | some (.prove (rt, lf, sibs, pi, nl)) =>
    s!"{optHex rt} {toHex nl} {proofHex lf sibs} {boolStr (verifyProof shaL shaN rt lf sibs pi nl)}"
  | _ => "bad-op"

def runDecomp (i : Option Nat) (ops : List String) (alias : Bool := false) : String := Id.run do
  let mut t : Tree Bytes Bytes := match i with
    | some k => { pidx := k, proofTree := true }
    | none => {}
  let mut flat : List Bytes := []
  let mut outs : List String := []
  for op in ops do
    match op.splitOn ":" with
    | ["P", x] =>
      let d := parseBytes x
      t := push shaL shaN t d; flat := flat ++ [d]; outs := outs ++ ["ok"]
    | ["S", h, xs] =>
      let ls := (xs.splitOn ",").map parseBytes
      match root shaN (pushAll shaL shaN ({} : Tree Bytes Bytes) ls) with
      | none => outs := outs ++ ["bad-op"]
      | some r =>
        match pushSubTree shaN t (parseHexD h) r with
        | .ok t' => t := t'; flat := flat ++ ls; outs := outs ++ ["ok"]
        | .error .containsProofIndex => outs := outs ++ ["err:contains"]
        | .error .tooLarge => outs := outs ++ ["err:toolarge"]
    | ["R", seg, bs] =>
      let b := parseBytes bs
      let sg := parseHexD seg
      if sg = 0 then outs := outs ++ ["bad-op"] else
      t := readAll shaL shaN t b sg; flat := flat ++ chunks sg b.length b; outs := outs ++ ["ok"]
    | ["R", seg, bs, spec] =>
      let b := parseBytes bs
      let sg := parseHexD seg
      if sg = 0 then outs := outs ++ ["bad-op"] else
      match readLeaves spec sg b with
      | none => outs := outs ++ ["bad-op"]
      | some ls => t := pushAll shaL shaN t ls; flat := flat ++ chunks sg b.length b; outs := outs ++ ["ok"]
    | ["Or"] =>
      let r := hstep shaL shaN t .root
      t := r.1; outs := outs ++ [showObs r.2]
    | ["Op"] =>
      if !t.proofTree then outs := outs ++ ["bad-op"] else
      let r := hstep shaL shaN t .prove
      t := r.1; outs := outs ++ [showObs r.2]
    -- `acca` (the caller reuses its memory): the model's values are immutable: what was returned keeps its value (`Ov`), and
    -- overwriting it (`Om`) is not an operation on the tree
    | ["Ov"] => outs := outs ++ [if alias then "same" else "bad-op"]
    | ["Om"] => outs := outs ++ [if alias then "ok" else "bad-op"]
    | ["I", k] =>
      match setIndex t (parseHexD k) with
      | some t' => t := t'; outs := outs ++ ["ok"]
      | none => outs := outs ++ ["err:notempty"]
    | _ => outs := outs ++ ["bad-op"]
  let t0 : Tree Bytes Bytes := { t with stack := [], cur := 0, pleaf := none, sibs := [] }
  let tf := pushAll shaL shaN t0 flat
  match t.proofTree with
  | false => return " ".intercalate (outs ++ [optHex (root shaN t), boolStr (root shaN t == root shaN tf)])
  | true =>
    let a := showProve shaL shaN id t
    return " ".intercalate (outs ++ [a, boolStr (a == showProve shaL shaN id tf)])

def symTree (n i seed : Nat) : Tree Bytes Sym :=
  pushAll Sym.leaf Sym.node ({ pidx := i, proofTree := true } : Tree Bytes Sym) (leavesOf seed n)

/-- Vortex symbolic leaves: pattern d = distinct, z = all zero, m = id j%3, e = all equal -/
def vxLeaves (pat : String) (n : Nat) : List Sym :=
  (List.range n).map (fun j => Sym.atom (match pat with | "z" => 0 | "m" => j % 3 | "e" => 1 | _ => j + 1))

def vxHandle (n : Nat) (i : Int) (pat kind : String) (a : Int) : String :=
  if n = 0 then "bad-op" else
  let z := Sym.atom 0
  let junk := Sym.atom 777777
  let L := vxLeaves pat n
  if i < 0 then "err:range" else
  match vopen Sym.node z L i.toNat with
  | none => "err:range"
  | some pf =>
    let i := i.toNat
    let lf := (padded z L).getD i z
    let rt := vroot Sym.node z L
    let ver (pf : List Sym) (j : Int) (lf rt : Sym) : String :=
      "ok " ++ boolStr (decide (0 ≤ j) && vverify Sym.node n pf j.toNat lf rt)
    let an := a.toNat
    match kind with
    | "none" => ver pf i lf rt
    | "leaf" => ver pf i junk rt
    | "leafother" => ver pf i (L.getD (an % n) z) rt
    | "leafzero" => ver pf i z rt
    | "root" => ver pf i lf junk
    | "sib" => ver (if pf.isEmpty then pf else pf.set (an % pf.length) junk) i lf rt
    | "sibleaf" => ver (if pf.isEmpty then pf else pf.set (an % pf.length) lf) i lf rt
    | "idx" => ver pf a lf rt
    | "idxpad" => ver pf a lf rt
    | "droplast" => ver pf.dropLast i lf rt
    | "dropfirst" => ver (pf.drop 1) i lf rt
    | "app" => ver (pf ++ [junk]) i lf rt
    | "dup" => ver (match pf.getLast? with | some x => pf ++ [x] | none => pf ++ [lf]) i lf rt
    | "lift" =>
      match pf with
      | [] => ver pf i lf rt
      | s :: pf' => ver pf' (i / 2) (if i % 2 = 1 then Sym.node s lf else Sym.node lf s) rt
    | _ => "bad-op"

/-- `vxi`: leaf, proof and root of position `p`, verified at every index of the list -/
def vxIdxHandle (n : Nat) (p : Int) (pat : String) (js : List Int) : String :=
  if n = 0 then "bad-op" else
  let z := Sym.atom 0
  let L := vxLeaves pat n
  if p < 0 then "err:range" else
  match vopen Sym.node z L p.toNat with
  | none => "err:range"
  | some pf =>
    let lf := (padded z L).getD p.toNat z
    let rt := vroot Sym.node z L
    " ".intercalate ("ok" :: js.map (fun j => boolStr (decide (0 ≤ j) && vverify Sym.node n pf j.toNat lf rt)))

/-- `accti`: the proof `Prove()` returns for (n, i), verified at every (index, numLeaves) pair of the list -/
def accIdxHandle (n i seed : Nat) (pairs : List String) : String :=
  let (rt, lf, sibs, _, _) := prove Sym.node (symTree n i seed)
  match pairs.mapM (fun s => match s.splitOn ":" with | [j, m] => some (parseHexD j, parseHexD m) | _ => none) with
  | none => "bad-op"
  | some ps => " ".intercalate (ps.map (fun (j, m) => boolStr (verifyProof Sym.leaf Sym.node rt lf sibs j m)))

def handle : List String → String
  | ["acc", "sha256", n, i, seed] =>
    let t : Tree Bytes Bytes := { pidx := parseHexD i, proofTree := true }
    showProve shaL shaN id (pushAll shaL shaN t (leavesOf (parseHexD seed) (parseHexD n)))
  | ["accroot", "sha256", n, seed] =>
    let t := pushAll shaL shaN ({} : Tree Bytes Bytes) (leavesOf (parseHexD seed) (parseHexD n))
    optHex (root shaN t) ++ " " ++ optHex (if parseHexD n = 0 then none else some (MTH shaL shaN (leavesOf (parseHexD seed) (parseHexD n))))
  | ["acct", hash, n, i, seed, kind, a] =>
    if (leafOk hash).isNone then "bad-op" else
    let n := parseHexD n
    let (rt, lf, sibs, pi, nl) := prove Sym.node (symTree n (parseHexD i) (parseHexD seed))
    match tamper kind (parseHexD a) n rt lf sibs pi with
    | none => "bad-op"
    | some (rt', lf', sibs', pi') => boolStr (verifyProof Sym.leaf Sym.node rt' lf' sibs' pi' nl)
  | "accd" :: "sha256" :: i :: ops => runDecomp (if i == "x" then none else some (parseHexD i)) ops
  | "acca" :: "sha256" :: i :: ops => runDecomp (if i == "x" then none else some (parseHexD i)) ops true
  | ["vxa", n, i, pat, _seed] => vxHandle (parseHexD n) (parseInt i) pat "none" 0
  | ["accr", "sha256", i, seg, bs] =>
    -- `ReaderRoot` = New, ReadAll, Root;  `BuildReaderProof` = New, SetIndex, ReadAll, Prove (+ error on an empty proof set)
    let sg := parseHexD seg
    if sg = 0 then "bad-op" else
    if i == "x" then optHex (root shaN (readAll shaL shaN ({} : Tree Bytes Bytes) (parseBytes bs) sg)) else
    let t := readAll shaL shaN ({ pidx := parseHexD i, proofTree := true } : Tree Bytes Bytes) (parseBytes bs) sg
    let (rt, lf, _, _, nl) := prove shaN t
    if lf.isNone then s!"err:notreached {optHex rt} {toHex nl}" else showProve shaL shaN id t
  | ["accr", "sha256", i, seg, bs, spec] =>
    -- the same through a reader that delivers the stream in pieces: the leaves are what the model of `io.ReadFull` collects
    let sg := parseHexD seg
    if sg = 0 then "bad-op" else
    match readLeaves spec sg (parseBytes bs) with
    | none => "bad-op"
    | some ls =>
    if i == "x" then optHex (root shaN (pushAll shaL shaN ({} : Tree Bytes Bytes) ls)) else
    let t := pushAll shaL shaN ({ pidx := parseHexD i, proofTree := true } : Tree Bytes Bytes) ls
    let (rt, lf, _, _, nl) := prove shaN t
    if lf.isNone then s!"err:notreached {optHex rt} {toHex nl}" else showProve shaL shaN id t
  | ["accb", hash, n, j, _seed, leaf] =>
    -- a tree whose j-th leaf is `leaf` (the others are absorbable): it exists iff the hasher absorbs the leaf, and then the
    -- proof of j verifies (`C16_prove_verifies`)
    let n := parseHexD n
    let j := parseHexD j
    match leafOk hash with
    | none => "bad-op"
    | some ok =>
      if n = 0 ∨ j ≥ n ∨ n > 64 then "bad-op" else
      if !ok (parseBytes leaf) then "refused" else
      let L := (leavesOf 1 n).set j (0xee :: parseBytes leaf)
      let (rt, lf, sibs, pi, nl) := prove Sym.node (pushAll Sym.leaf Sym.node ({ pidx := j, proofTree := true } : Tree Bytes Sym) L)
      "ok " ++ boolStr (verifyProof Sym.leaf Sym.node rt lf sibs pi nl)
  | ["accrb", hash, seg, bs] =>
    let sg := parseHexD seg
    match leafOk hash with
    | none => "bad-op"
    | some ok =>
      if sg = 0 then "bad-op" else
      let b := parseBytes bs
      if (chunks sg b.length b).all ok then "ok" else "refused"
  | ["accti", "sha256", n, i, seed, pairs] => accIdxHandle (parseHexD n) (parseHexD i) (parseHexD seed) (pairs.splitOn ",")
  | ["vxi", n, p, pat, _seed, js] => vxIdxHandle (parseHexD n) (parseInt p) pat ((js.splitOn ",").map parseInt)
  | ["vx", n, i, pat, _seed, kind, a] => vxHandle (parseHexD n) (parseInt i) pat kind (parseInt a)
  | _ => "bad-op"

end IO

end GV.Merkle
