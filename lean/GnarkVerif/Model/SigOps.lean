import GnarkVerif.Model.Sig
import GnarkVerif.Model.SigParams
import GnarkVerif.Model.SigScript
/-
C12 line protocol.  `C12 <OP> <instance> args…`

EdDSA   EDP <params…>                                  parameters = table, base on curve, [ℓ]B = O        → ok
        EDV <hash> <Ax> <Ay> <sig> <msg> <oin> <oout>   PublicKey.Verify                                    → 1 | 0 | err:<class>
        EDVNC …                                         same op; the model first demands a canonical R encoding
        EDPK <bytes> / EDPKN <bytes> / EDPKNC <bytes>   PublicKey.SetBytes: `x y re-encoding` / consumed / strict
        EDSIG <bytes>                                   Signature.SetBytes: `n Rx Ry S re-encoding`
        EDSK <bytes> / EDSKN <bytes> / EDSKX <bytes>    PrivateKey.SetBytes: `x y re-encoding` / consumed / over-long buffer
        EDPKL <bytes> / EDSKL <bytes>                   PublicKey / PrivateKey.SetBytes on a buffer longer than the object: `n x y re-encoding`
        EDSGN <hash> <sk> <nonce> <msg> <oin> <oout>    PrivateKey.Sign then Verify under the key of <sk>: `signature-bytes verdict`; the model
                                                        signs with the nonce on the line (Go derives the same one from randSrc and msg)
ECDSA   ECP, ECV, ECVB (= ECV; triples built backwards from a chosen R), ECVINF (model refuses the key "infinity"), ECVOC (= ECV; keys off the curve through the exported field: verifyPK refuses them), ECPK, ECPKN, ECSIG, ECSK, ECH (HashToInt, the Go rule), ECHF (HashToInt against the FIPS 186-4 leftmost-bits rule), ECR (RecoverFrom)
        ECPKL <bytes>                                   PublicKey.SetBytes on a buffer longer than the key: `n x y re-encoding`
        ECSGN <hash> <sk> <entropy> <k> <msg> <oin> <oout>   Sign (crypto/rand yields <entropy>, which makes the nonce <k>) then Verify: `signature-bytes verdict`
        INV <q> <a>                                     the Euclid inverse of the model, and whether it equals the Fermat one
Histories EDSCR / ECSCR <step> <step> …                       a script over key / buffer / hasher objects (grammar: `tools/harness/c12_hist.go`), interpreted
                                                        with value semantics by `Model/SigScript.lean`: one output token per step
`<hash>` ∈ sha256 | mimc | nil | const (a hash.Hash whose Sum is always `<oout>`); for mimc `<oin>` are the recorded writes (`:`-separated) and `<oout>` the recorded sum.
-/
namespace GV.SigOps
open GV GV.Sig GV.Alg

def edLookup (n : String) : Option EdParams := SigParams.edCurves.find? (·.name == n)
def ecLookup (n : String) : Option ECParams := SigParams.ecCurves.find? (·.name == n)

def parseWrites (s : String) : List Bytes := if s == "~" then [] else (s.splitOn ":").map parseBytes

def mkHash (hname : String) (bs q : Nat) (oin oout : String) : Option (Option HashFn) :=
  if hname == "sha256" then some (some sha256Fn)
  else if hname == "nil" then some none
  else if hname == "mimc" then some (some (mimcOracle bs q (parseWrites oin) (parseBytes oout)))
  else if hname == "const" then some (some (fun _ => .ok (parseBytes oout)))   -- a hash.Hash whose Sum is the constant `oout`
  else none

def verdict : Except Err Bool → String
  | .ok b => boolStr b
  | .error e => e.str

def hexN (ns : List Nat) : String := " ".intercalate (ns.map toHex)

/-! ### EdDSA -/

def edParamsLine (P : EdParams) : List String :=
  [P.q, P.a, P.d, P.bx, P.by_, P.order, P.cofactor, P.size].map toHex

/-- the point encoding is the canonical one: ordinate below q, and no sign bit on x = 0 -/
def edCanonical (P : EdParams) (buf : Bytes) : Bool :=
  P.yRaw buf < P.q && !(P.signBit buf && (P.decompress (sqrtF P.q) buf).1 == 0)

/-- the EdDSA instance as a script scheme: private key = (A, scalar, randSrc), public key = A -/
def edScheme (P : EdParams) : SigScript.Scheme where
  SK := (Nat × Nat) × Nat × Bytes
  PK := Nat × Nat
  skParse b := (P.skParse (sqrtF P.q) b).map (fun (n, A, sc, rs) => (n, (A, sc, rs)))
  skBytes k := P.compress k.1 ++ natToBE P.size k.2.1 ++ k.2.2
  pub k := k.1
  pkParse b := P.pkParse (sqrtF P.q) b
  pkBytes A := P.compress A
  hash kind oin oout := mkHash kind P.size P.q oin oout
  sign H k nonce m := P.sign P.smulFast H k.1 k.2.1 (parseHexD nonce) m
  signRec _ _ _ _ := .error .oracle
  verify H A sig m := P.verify P.smulFast (sqrtF P.q) H A sig m
  recover _ _ _ _ := .error .oracle

def handleEd (P : EdParams) (op : String) (a : List String) : String :=
  let sq := sqrtF P.q
  match op, a with
  | "EDSCR", steps => SigScript.run (edScheme P) steps
  | "EDP", ps =>
    if ps ≠ edParamsLine P then "params-differ"
    else if !(P.onCurve P.B) then "base-off-curve"
    else if P.smulFast P.order P.B != (0, 1) then "order-wrong"
    else "ok"
  | "EDV", [h, ax, ay, sig, msg, oin, oout] =>
    match mkHash h P.size P.q oin oout with
    | none => "bad-op"
    | some H => verdict (P.verify P.smulFast sq H (parseHexD ax, parseHexD ay) (parseBytes sig) (parseBytes msg))
  | "EDVNC", [h, ax, ay, sig, msg, oin, oout] =>
    if !(edCanonical P (parseBytes sig)) then Err.nonCanonical.str else
    match mkHash h P.size P.q oin oout with
    | none => "bad-op"
    | some H => verdict (P.verify P.smulFast sq H (parseHexD ax, parseHexD ay) (parseBytes sig) (parseBytes msg))
  | "EDPK", [b] =>
    match P.pkParse sq (parseBytes b) with
    | .error e => e.str
    | .ok (_, A) => hexN [A.1, A.2] ++ " " ++ bytesToHex (P.compress A)
  | "EDPKNC", [b] =>
    match P.pkParse sq (parseBytes b) with
    | .error e => e.str
    | .ok (_, A) => if !(edCanonical P (parseBytes b)) then Err.nonCanonical.str else hexN [A.1, A.2] ++ " " ++ bytesToHex (P.compress A)
  | "EDPKN", [b] =>
    match P.pkParse sq (parseBytes b) with
    | .error e => e.str
    | .ok (n, _) => toString n
  | "EDSIG", [b] =>
    match P.sigParse sq (parseBytes b) with
    | .error e => e.str
    | .ok (n, R, s) => toString n ++ " " ++ hexN [R.1, R.2, s] ++ " " ++ bytesToHex (P.sigBytes R s)
  | "EDSKN", [b] =>
    match P.skParse sq (parseBytes b) with
    | .error e => e.str
    | .ok (n, _) => toString n
  | "EDSK", [b] | "EDSKX", [b] =>
    match P.skParse sq (parseBytes b) with
    | .error e => e.str
    | .ok (_, A, sc, rs) => hexN [A.1, A.2] ++ " " ++ bytesToHex (P.compress A ++ natToBE P.size sc ++ rs)
  | "EDPKL", [b] =>
    match P.pkParse sq (parseBytes b) with
    | .error e => e.str
    | .ok (n, A) => toString n ++ " " ++ hexN [A.1, A.2] ++ " " ++ bytesToHex (P.compress A)
  | "EDSKL", [b] =>
    match P.skParse sq (parseBytes b) with
    | .error e => e.str
    | .ok (n, A, sc, rs) => toString n ++ " " ++ hexN [A.1, A.2] ++ " " ++ bytesToHex (P.compress A ++ natToBE P.size sc ++ rs)
  | "EDSGN", [h, sk, r, msg, oin, oout] =>
    match mkHash h P.size P.q oin oout with
    | none => "bad-op"
    | some H =>
      match P.skParse sq (parseBytes sk) with
      | .error e => e.str
      | .ok (_, A, sc, _) =>
        match P.sign P.smulFast H A sc (parseHexD r) (parseBytes msg) with
        | .error e => e.str
        | .ok sig => bytesToHex sig ++ " " ++ verdict (P.verify P.smulFast sq H A sig (parseBytes msg))
  | "EDSM", [k, x, y] =>
    let X := (parseHexD x, parseHexD y); let k := parseHexD k
    let R := P.smul k X
    hexN [R.1, R.2] ++ " " ++ boolStr (P.smulFast k X == R)
  | _, _ => "bad-op"

/-! ### ECDSA -/

def ecParamsLine (P : ECParams) : List String :=
  [P.p, P.a, P.b, P.gx, P.gy, P.n, P.frBytes, P.frBits, P.fpBytes, P.maskKind].map toHex
    ++ [boolStr P.infZeroCheck, toHex P.mimcQ, toHex P.mimcSize]

def showAff (Q : Pt Nat) : String := let (x, y) := ECParams.toAffine Q; hexN [x, y]

/-- the nonce token `<entropy>/<k>` of an ECDSA sign step -/
def ecNonceTok (t : String) : Nat :=
  match t.splitOn "/" with
  | [_, k] => parseHexD k
  | _ => 0

/-- the ECDSA instance as a script scheme: private key = (Q, d), public key = Q -/
def ecScheme (P : ECParams) : SigScript.Scheme where
  SK := Pt Nat × Nat
  PK := Pt Nat
  skParse b := (P.skParse P.smulFast b).map (fun (n, Q, d) => (n, (Q, d)))
  skBytes k := P.pkBytes k.1 ++ natToBE P.frBytes k.2
  pub k := k.1
  pkParse b := (P.pubParse P.smulFast b).map (fun Q => (P.pkSize, Q))
  pkBytes Q := P.pkBytes Q
  hash kind oin oout := mkHash kind P.mimcSize P.mimcQ oin oout
  sign H k nonce m := P.sign P.smulFast H k.2 (ecNonceTok nonce) m
  signRec H k nonce m :=
    (P.signRecover P.smulFast H k.2 (ecNonceTok nonce) m).map (fun (v, r, s) => toHex v ++ ":" ++ toHex r ++ ":" ++ toHex s)
  verify H Q sig m := P.verifyPK P.smulFast H Q sig m
  recover d v r s := P.recover P.smulFast d v r s

def handleEc (P : ECParams) (op : String) (a : List String) : String :=
  match op, a with
  | "ECSCR", steps => SigScript.run (ecScheme P) steps
  | "ECP", ps =>
    if ps ≠ ecParamsLine P then "params-differ"
    else if !(P.E.onCurve P.G) then "base-off-curve"
    else if !(P.smulFast (Int.ofNat P.n) P.G).isNone then "order-wrong"
    else "ok"
  | "ECV", [h, qx, qy, sig, msg, oin, oout] | "ECVB", [h, qx, qy, sig, msg, oin, oout] | "ECVOC", [h, qx, qy, sig, msg, oin, oout] =>
    match mkHash h P.mimcSize P.mimcQ oin oout with
    | none => "bad-op"
    | some H =>
      let Q := ECParams.ofAffine (parseHexD qx) (parseHexD qy)
      if Q.isNone then "err:pkinfinity" else
      verdict (P.verifyPK P.smulFast H Q (parseBytes sig) (parseBytes msg))
  | "ECVINF", [h, qx, qy, sig, msg, oin, oout] =>
    let Q := ECParams.ofAffine (parseHexD qx) (parseHexD qy)
    if Q.isNone then "err:pkinfinity" else
    match mkHash h P.mimcSize P.mimcQ oin oout with
    | none => "bad-op"
    | some H => verdict (P.verifyPK P.smulFast H Q (parseBytes sig) (parseBytes msg))
  | "ECPK", [b] | "ECPKT", [b] =>
    match P.pubParse P.smulFast (parseBytes b) with
    | .error e => e.str
    | .ok Q => showAff Q ++ " " ++ bytesToHex (P.pkBytes Q)
  | "ECPKN", [b] =>
    match P.pkConsumed P.smulFast (parseBytes b) with
    | .error e => e.str
    | .ok n => toString n
  | "ECPKL", [b] =>
    match P.pubParse P.smulFast (parseBytes b) with
    | .error e => e.str
    | .ok Q => toString P.pkSize ++ " " ++ showAff Q ++ " " ++ bytesToHex (P.pkBytes Q)
  | "ECSGN", [h, sk, _entropy, k, msg, oin, oout] =>
    match mkHash h P.mimcSize P.mimcQ oin oout with
    | none => "bad-op"
    | some H =>
      match P.skParse P.smulFast (parseBytes sk) with
      | .error e => e.str
      | .ok (_, Q, d) =>
        match P.sign P.smulFast H d (parseHexD k) (parseBytes msg) with
        | .error e => e.str
        | .ok sig =>
          bytesToHex sig ++ " " ++
            (if Q.isNone then "err:pkinfinity" else verdict (P.verify P.smulFast H Q sig (parseBytes msg)))
  | "ECSIG", [b] =>
    match P.sigParse (parseBytes b) with
    | .error e => e.str
    | .ok (n, r, s) => toString n ++ " " ++ hexN [r, s] ++ " " ++ bytesToHex (P.sigBytes r s)
  | "ECSK", [b] =>
    match P.skParse P.smulFast (parseBytes b) with
    | .error e => e.str
    | .ok (n, Q, sc) => toString n ++ " " ++ showAff Q ++ " " ++ bytesToHex (P.pkBytes Q ++ natToBE P.frBytes sc)
  | "ECSM", [k, x, y] | "ECSMN", [k, x, y] =>
    let Q := ECParams.ofAffine (parseHexD x) (parseHexD y); let k := parseInt k
    let R := P.smul k Q
    showAff R ++ " " ++ boolStr (P.E.beq (P.smulFast k Q) R)
  | "ECH", [b] => toHex (P.hashToInt (parseBytes b))
  | "ECHF", [b] => toHex (P.hashToIntFIPS (parseBytes b))
  | "ECR", [d, v, r, s, qx, qy] =>
    match P.recover P.smulFast (parseBytes d) (parseHexD v) (parseInt r) (parseInt s) with
    | .error e => e.str
    | .ok Q =>
      let (x, y) := ECParams.toAffine Q
      hexN [x, y] ++ " " ++ boolStr (x == parseHexD qx && y == parseHexD qy)
  | _, _ => "bad-op"

def handle (args : List String) : String :=
  match args with
  | ["INV", q, a] =>
    let q := parseHexD q; let a := parseHexD a
    toHex (invE q a) ++ " " ++ boolStr (invE q a == (fp q).inv a)
  | op :: inst :: rest =>
    if op.startsWith "ED" then
      match edLookup inst with
      | some P => handleEd P op rest
      | none => "bad-op"
    else if op.startsWith "EC" then
      match ecLookup inst with
      | some P => handleEc P op rest
      | none => "bad-op"
    else "bad-op"
  | _ => "bad-op"

end GV.SigOps
