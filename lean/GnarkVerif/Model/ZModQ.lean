/- Core-only executable prime field `ZModQ q` (values are `Nat < q`), carrying exactly the classes the
   GENERATED tower defs (Gen/Tower/*.lean) are polymorphic over, so that the same defs that are reasoned
   about over a Mathlib `Field` can be EVALUATED on numbers (search step 1.7(a), driver op `C06slp`). -/
import GnarkVerif.Model.Util

namespace GV

structure ZModQ (q : Nat) where
  v : Nat
deriving DecidableEq, Repr

namespace ZModQ
variable {q : Nat}

def ofNat (n : Nat) : ZModQ q := ⟨n % q⟩

instance : Zero (ZModQ q) := ⟨⟨0⟩⟩
instance : One (ZModQ q) := ⟨⟨1 % q⟩⟩
instance : NatCast (ZModQ q) := ⟨ofNat⟩
instance : Add (ZModQ q) := ⟨fun a b => ⟨(a.v + b.v) % q⟩⟩
instance : Sub (ZModQ q) := ⟨fun a b => ⟨(a.v + (q - b.v % q)) % q⟩⟩
instance : Mul (ZModQ q) := ⟨fun a b => ⟨(a.v * b.v) % q⟩⟩
instance : Neg (ZModQ q) := ⟨fun a => ⟨(q - a.v % q) % q⟩⟩
/-- Fermat inverse (q prime); 0⁻¹ = 0 as in the Go code and in Mathlib fields -/
instance : Inv (ZModQ q) := ⟨fun a => ⟨powMod a.v (q - 2) q⟩⟩

instance {n : Nat} : OfNat (ZModQ q) n := ⟨ofNat n⟩

example : ((5 : ZModQ 7) * 3 - 2 : ZModQ 7) = ⟨6⟩ := by decide
example : ((3 : ZModQ 7)⁻¹ * 3 : ZModQ 7) = 1 := by decide

end ZModQ

/-- flattening of field-like values to / from lists of base-field numbers (line protocol of `C06slp`);
    instances for the tower structures are generated (Gen/Tower/*Exec.lean) -/
class Flat (α : Type) where
  toL : α → List Nat
  take : List Nat → α × List Nat

instance {q : Nat} : Flat (ZModQ q) := ⟨fun a => [a.v], fun xs => (ZModQ.ofNat (xs.headD 0), xs.tail)⟩
instance : Flat Nat := ⟨fun a => [a], fun xs => (xs.headD 0, xs.tail)⟩
instance : Flat Bool := ⟨fun b => [if b then 1 else 0], fun xs => (xs.headD 0 != 0, xs.tail)⟩
instance {α β : Type} [Flat α] [Flat β] : Flat (α × β) :=
  ⟨fun p => Flat.toL p.1 ++ Flat.toL p.2,
   fun xs => let (a, xs) := Flat.take xs; let (b, xs) := Flat.take xs; ((a, b), xs)⟩

end GV
