import GnarkVerif.Model.Util
import GnarkVerif.Model.MiMC
import GnarkVerif.Gen.Fields
/-
C14 — executable model of Poseidon2 (`ecc/<curve>/fr/poseidon2/{poseidon2,hash}.go`, 8 curve fields, widths 2 and 3;
`field/{koalabear,babybear,goldilocks}/poseidon2/{poseidon2,hash}.go`, widths 16/24 and 8/12) and of the generic
Merkle–Damgård wrapper `hash/merkle-damgard.go`.

The linear layers and the S-boxes are written over a dictionary of ring operations `ROps α` exactly as the Go code
computes them (addition chains); the driver instantiates `α := Nat` with arithmetic mod q, the theorems instantiate an
arbitrary commutative ring and compare with the matrix form (`Props/C14.lean`).
Round keys (Keccak-derived) travel on the op line.
-/
namespace GV.Poseidon2

abbrev Bytes := List UInt8

structure ROps (α : Type) where
  zero : α
  add : α → α → α
  mul : α → α → α

def natOps (q : Nat) : ROps Nat := { zero := 0, add := fun a b => (a + b) % q, mul := fun a b => a * b % q }

inductive SBox | d3 | d5 | d7a | d7b | d17
deriving Repr, DecidableEq

def SBox.deg : SBox → Nat
  | .d3 => 3 | .d5 => 5 | .d7a => 7 | .d7b => 7 | .d17 => 17

inductive M4Kind | plonky | paper
deriving Repr, DecidableEq

section generic
variable {α : Type} (F : ROps α)

def dbl (x : α) : α := F.add x x

/-- `sum.Set(&input[0]); for i ≥ 1: sum.Add(&sum, &input[i])` -/
def sum1 : List α → α
  | [] => F.zero
  | x :: xs => xs.foldl F.add x

/-- S-box chains of the Go `sBox` functions -/
def sbox (k : SBox) (x : α) : α :=
  match k with
  | .d3 => F.mul (F.mul x x) x                                    -- koalabear
  | .d5 => let x2 := F.mul x x; F.mul (F.mul x2 x2) x             -- bn254, bls12-381, bls24-315, bw6-*, grumpkin
  | .d7a => let x3 := F.mul (F.mul x x) x; F.mul (F.mul x3 x3) x  -- bls24-317
  | .d7b => let x2 := F.mul x x; F.mul (F.mul (F.mul x2 x2) x) x2 -- babybear, goldilocks
  | .d17 =>                                                       -- bls12-377
    let x2 := F.mul x x; let x4 := F.mul x2 x2; let x8 := F.mul x4 x4; let x16 := F.mul x8 x8; F.mul x16 x

/-- `matMulM4InPlace` on one chunk -/
def m4 (k : M4Kind) (a b c d : α) : α × α × α × α :=
  match k with
  | .plonky =>   -- koalabear / babybear: M4 = [[2,3,1,1],[1,2,3,1],[1,1,2,3],[3,1,1,2]]
    let t01 := F.add a b
    let t23 := F.add c d
    let t0123 := F.add t01 t23
    let t01123 := F.add t0123 b
    let t01233 := F.add t0123 d
    (F.add t01 t01123, F.add (dbl F c) t01123, F.add t23 t01233, F.add (dbl F a) t01233)
  | .paper =>    -- goldilocks: M4 = [[5,7,1,3],[4,6,1,1],[1,3,5,7],[1,1,4,6]]
    let t0 := F.add a b
    let t1 := F.add c d
    let t2 := F.add (dbl F b) t1
    let t3 := F.add (dbl F d) t0
    let t4 := F.add (dbl F (dbl F t1)) t3
    let t5 := F.add (dbl F (dbl F t0)) t2
    let t6 := F.add t3 t5
    let t7 := F.add t2 t4
    (t6, t5, t7, t4)

def m4All (k : M4Kind) : List α → List α
  | a :: b :: c :: d :: rest =>
    let r := m4 F k a b c d
    r.1 :: r.2.1 :: r.2.2.1 :: r.2.2.2 :: m4All k rest
  | rest => rest

/-- `tmp[r] += input[4i+r]` -/
def colSums (acc : α × α × α × α) : List α → α × α × α × α
  | a :: b :: c :: d :: rest => colSums (F.add acc.1 a, F.add acc.2.1 b, F.add acc.2.2.1 c, F.add acc.2.2.2 d) rest
  | _ => acc

/-- `input[4i+r] += tmp[r]` -/
def addCols (s : α × α × α × α) : List α → List α
  | a :: b :: c :: d :: rest => F.add a s.1 :: F.add b s.2.1 :: F.add c s.2.2.1 :: F.add d s.2.2.2 :: addCols s rest
  | rest => rest

/-- `matMulExternalInPlace`, width ≡ 0 mod 4: circ(2·M4, M4, …, M4) -/
def ext4 (k : M4Kind) (xs : List α) : List α :=
  let ys := m4All F k xs
  addCols F (colSums F (F.zero, F.zero, F.zero, F.zero) ys) ys

/-- `matMulExternalInPlace`, width 2 or 3: `tmp = Σ xᵢ; xᵢ ← tmp + xᵢ` -/
def ext23 (xs : List α) : List α :=
  let s := sum1 F xs
  xs.map (fun x => F.add s x)

/-- `matMulInternalInPlace`, width 2 or 3: `xᵢ ← xᵢ + sum`, the last one `2·x + sum` -/
def int23 : List α → List α
  | [x0, x1] => let s := F.add x0 x1; [F.add x0 s, F.add (dbl F x1) s]
  | [x0, x1, x2] => let s := F.add (F.add x0 x1) x2; [F.add x0 s, F.add x1 s, F.add (dbl F x2) s]
  | xs => xs

/-- `matMulInternalInPlace`, width ≡ 0 mod 4: `xᵢ ← sum + μᵢ·xᵢ` (the Go code multiplies by μᵢ with
Double/Halve/Mul2ExpNegN chains for koalabear/babybear and with `Mul(&diag[i])` for goldilocks) -/
def intDiag (diag : List α) (xs : List α) : List α :=
  let s := sum1 F xs
  List.zipWith (fun x μ => F.add s (F.mul μ x)) xs diag

structure Inst (α : Type) where
  t : Nat
  sb : SBox
  m4k : M4Kind
  diag : List α           -- only for t ≡ 0 mod 4
  rf : Nat
  rp : Nat
  keys : List (List α)    -- `RoundKeys`

def extL (I : Inst α) (xs : List α) : List α := if I.t % 4 = 0 then ext4 F I.m4k xs else ext23 F xs
def intL (I : Inst α) (xs : List α) : List α := if I.t % 4 = 0 then intDiag F I.diag xs else int23 F xs

/-- `addRoundKeyInPlace`: adds `len(RoundKeys[round])` keys to the first entries -/
def addRK : List α → List α → List α
  | k :: ks, x :: xs => F.add x k :: addRK ks xs
  | _, xs => xs

def fullRound (I : Inst α) (x : List α) (ks : List α) : List α :=
  extL F I ((addRK F ks x).map (sbox F I.sb))

def partialRound (I : Inst α) (x : List α) (ks : List α) : List α :=
  intL F I (match addRK F ks x with
    | y :: ys => sbox F I.sb y :: ys
    | [] => [])

/-- `Permutation` on a buffer of the right width -/
def permute (I : Inst α) (x : List α) : List α :=
  let h := I.rf / 2
  let x := extL F I x
  let x := (I.keys.take h).foldl (fullRound F I) x
  let x := ((I.keys.drop h).take I.rp).foldl (partialRound F I) x
  ((I.keys.drop (h + I.rp)).take (I.rf - h)).foldl (fullRound F I) x

end generic

/-! ### instances (Nat mod q) -/

/-- coefficient of the internal diagonal as the Go code applies it -/
inductive Coef
  | int (z : Int)            -- ±n via Double/Add chains
  | inv2 (neg : Bool) (k : Nat)  -- ±2^(-k) via Halve / Mul2ExpNegN
  | lit (n : Nat)            -- literal table entry (goldilocks diag8 / diag12)
deriving Repr, DecidableEq

def Coef.val (q : Nat) : Coef → Nat
  | .int z => (z % (q : Int)).toNat
  | .inv2 neg k => let v := invMod (powMod 2 k q) q; if neg then (q - v) % q else v
  | .lit n => n % q

def kbHead : List Coef := [.int (-2), .int 1, .int 2, .inv2 false 1, .int 3, .int 4, .inv2 true 1, .int (-3), .int (-4)]
/-- koalabear `matMulInternalInPlace` case 16 / 24 (read from the Sub/Add/Halve/Mul2ExpNegN lines) -/
def kbDiag16 : List Coef := kbHead ++ [.inv2 false 8, .inv2 false 3, .inv2 false 24, .inv2 true 8, .inv2 true 3, .inv2 true 4, .inv2 true 24]
def kbDiag24 : List Coef := kbHead ++ [.inv2 false 8, .inv2 false 2, .inv2 false 3, .inv2 false 4, .inv2 false 5, .inv2 false 6,
  .inv2 false 24, .inv2 true 8, .inv2 true 3, .inv2 true 4, .inv2 true 5, .inv2 true 6, .inv2 true 7, .inv2 true 9, .inv2 true 24]
/-- babybear -/
def bbDiag16 : List Coef := kbHead ++ [.inv2 false 8, .inv2 false 2, .inv2 false 3, .inv2 false 27, .inv2 true 8, .inv2 true 4, .inv2 true 27]
def bbDiag24 : List Coef := kbHead ++ [.inv2 false 8, .inv2 false 2, .inv2 false 3, .inv2 false 4, .inv2 false 7, .inv2 false 9,
  .inv2 false 27, .inv2 true 8, .inv2 true 2, .inv2 true 3, .inv2 true 4, .inv2 true 5, .inv2 true 6, .inv2 true 7, .inv2 true 27]
/-- goldilocks `diag8`, `diag12` (hash.go) -/
def glDiag8 : List Coef := [12216033376705242021, 2072934925475504800, 16432743296706583078, 1287600597097751715,
  10482065724875379356, 3057917794534811537, 4460508886913832365, 4574242228824269566].map .lit
def glDiag12 : List Coef := [14102670999874605824, 15585654191999307702, 940187017142450255, 8747386241522630711,
  6750641561540124747, 7440998025584530007, 6136358134615751536, 12413576830284969611, 11675438539028694709,
  17580553691069642926, 892707462476851331, 15167485180850043744].map .lit

/-- static description of one Go package: field, S-box chain, M4 variant, widths accepted by `NewPermutation` with the
internal diagonal, default parameters `(t, rf, rp)` of `GetDefaultParameters` -/
structure Pkg where
  name : String
  field : String
  sb : SBox
  m4k : M4Kind
  widths : List (Nat × List Coef)
  dflt : Nat × Nat × Nat

def curvePkg (name field : String) (sb : SBox) (rp : Nat) : Pkg :=
  { name := name, field := field, sb := sb, m4k := .paper, widths := [(2, []), (3, [])], dflt := (2, 6, rp) }

def pkgs : List Pkg := [
  curvePkg "bn254" "bn254_fr" .d5 50, curvePkg "bls12-381" "bls12_381_fr" .d5 50,
  curvePkg "bls12-377" "bls12_377_fr" .d17 26, curvePkg "bw6-761" "bw6_761_fr" .d5 50,
  curvePkg "bls24-315" "bls24_315_fr" .d5 50, curvePkg "bls24-317" "bls24_317_fr" .d7a 40,
  curvePkg "bw6-633" "bw6_633_fr" .d5 50, curvePkg "grumpkin" "grumpkin_fr" .d5 50,
  { name := "koalabear", field := "koalabear", sb := .d3, m4k := .plonky, widths := [(16, kbDiag16), (24, kbDiag24)], dflt := (16, 6, 21) },
  { name := "babybear", field := "babybear", sb := .d7b, m4k := .plonky, widths := [(16, bbDiag16), (24, bbDiag24)], dflt := (16, 8, 13) },
  { name := "goldilocks", field := "goldilocks", sb := .d7b, m4k := .paper, widths := [(8, glDiag8), (12, glDiag12)], dflt := (8, 6, 17) }]

/-- a concrete instance: field constants + `Inst Nat` -/
structure CInst where
  q : Nat
  eb : Nat              -- bytes of one element
  inst : Inst Nat

/-- keys: rows separated by `;`, entries by `,` -/
def parseKeys (s : String) : List (List Nat) :=
  if s == "-" then [] else (s.splitOn ";").map (fun r => if r == "" then [] else (r.splitOn ",").map parseHexD)

def keysShapeOk (t rf rp : Nat) (keys : List (List Nat)) (q : Nat) : Bool :=
  let h := rf / 2
  keys.length == rf + rp &&
  (keys.take h).all (·.length == t) && ((keys.drop h).take rp).all (·.length == 1) &&
  (keys.drop (h + rp)).all (·.length == t) && keys.all (·.all (· < q))

def mkInst (pkg : String) (t rf rp : Nat) (keys : List (List Nat)) : Option CInst := do
  let P ← pkgs.find? (·.name == pkg)
  let fc ← Gen.allFields.find? (·.name == P.field)
  let (_, dg) ← P.widths.find? (·.1 == t)
  if !keysShapeOk t rf rp keys fc.q then none else
  some { q := fc.q, eb := fc.bytes,
         inst := { t := t, sb := P.sb, m4k := P.m4k, diag := dg.map (Coef.val fc.q), rf := rf, rp := rp, keys := keys } }

def CInst.perm (C : CInst) (x : List Nat) : Option (List Nat) :=
  if x.length = C.inst.t then some (permute (natOps C.q) C.inst x) else none

/-! ### Compress (bytes) -/

/-- `k` canonical big-endian elements of `eb` bytes each -/
def decodeElems (q eb : Nat) (b : Bytes) : Option (List Nat) :=
  MiMC.decodeBlocks { q := q, d := 0, size := eb, consts := [] } b

def encodeElems (eb : Nat) (xs : List Nat) : Bytes := (xs.map (MiMC.encBE eb)).flatten

/-- `Permutation.Compress(left, right)`: both inputs are `t/2` canonical elements; output
`rightᵢ + Permutation(left ‖ right)[t/2 + i]`; `none` = error -/
def CInst.compress (C : CInst) (left right : Bytes) : Option Bytes :=
  let n := C.inst.t / 2
  if C.inst.t ≠ 2 * n then none
  else if left.length ≠ n * C.eb ∨ right.length ≠ n * C.eb then none
  else
    match decodeElems C.q C.eb left, decodeElems C.q C.eb right with
    | some l, some r =>
      let y := permute (natOps C.q) C.inst (l ++ r)
      some (encodeElems C.eb (List.zipWith (fun a b => (a + b) % C.q) r (y.drop n)))
    | _, _ => none

/-! ### Merkle–Damgård wrapper (`hash/merkle-damgard.go`) as a step machine -/

open MiMC (Op Out)

structure MD where
  bs : Nat                          -- block size in bytes
  f : Bytes → Bytes → Option Bytes  -- `Compress`; `none` = error
  valid : Bytes → Bool              -- a block of canonical field elements
  iv : Bytes

/-- blocks of a write: `bs` bytes each, the short tail (if any) left-padded with zeros, as the Go code does -/
def chunks (bs : Nat) (p : Bytes) : List Bytes :=
  if hp : p = [] then []
  else if hs : bs = 0 then []
  else if p.length < bs then [List.replicate (bs - p.length) 0 ++ p]
  else p.take bs :: chunks bs (p.drop bs)
termination_by p.length
decreasing_by
  simp only [List.length_drop]
  cases p with
  | nil => exact absurd rfl hp
  | cons a t => simp only [List.length_cons]; omega

/-- absorb blocks; `none` as soon as one block is refused -/
def absorb (M : MD) : Bytes → List Bytes → Option Bytes
  | s, [] => some s
  | s, b :: bs => match M.f s b with
    | some s' => absorb M s' bs
    | none => none

/-- the model follows the PROPERTY where the Go code deviates: a refused Write leaves the state unchanged (Go: state
becomes nil), `Sum(b)` appends the state to `b` and does not absorb `b` (Go: absorbs `b`, returns the internal slice),
`SetState` refuses a state that is not a canonical block (Go: accepts anything), slices are values (Go: aliases). -/
def mdStep (M : MD) (s : Bytes) : Op → Bytes × Out
  | .write p =>
    match absorb M s (chunks M.bs p) with
    | some s' => (s', .wrote ((chunks M.bs p).length * M.bs))
    | none => (s, .err)
  | .sum b => (s, .bytes (b ++ s))
  | .reset => (M.iv, .unit)
  | .state => (s, .bytes s)
  | .setState st =>
    if M.valid st then (st, .unit) else (s, .err)

def CInst.md (C : CInst) : MD :=
  let bs := (C.inst.t / 2) * C.eb
  { bs := bs, f := C.compress, iv := List.replicate bs 0,
    valid := fun b => b.length == bs && (decodeElems C.q C.eb b).isSome }

/-! ### line protocol
`C14 p2perm <pkg> <t> <rf> <rp> <keys> <x0,x1,…> …`      → `y0,y1,…` | `err` per input
`C14 p2comp <pkg> <t> <rf> <rp> <keys> <left>:<right> …` → hex | `err`
`C14 md <ctor> <pkg> <t> <rf> <rp> <keys> histories`      (ctor ∈ reg | new : default parameters, checked here) -/

def showList (xs : List Nat) : String := if xs.isEmpty then "-" else ",".intercalate (xs.map toHex)

def withInst (a : List String) (k : CInst → List String → String) : String :=
  match a with
  | pkg :: t :: rf :: rp :: keys :: rest =>
    match mkInst pkg (parseHexD t) (parseHexD rf) (parseHexD rp) (parseKeys keys) with
    | some C => k C rest
    | none => "bad-inst"
  | _ => "bad-op"

def handlePerm (a : List String) : String :=
  withInst a fun C rest => " ".intercalate (rest.map fun tok =>
    match C.perm (MiMC.parseList tok) with
    | some y => showList y
    | none => "err")

def handleComp (a : List String) : String :=
  withInst a fun C rest => " ".intercalate (rest.map fun tok =>
    match tok.splitOn ":" with
    | [l, r] => match C.compress (parseBytes l) (parseBytes r) with
      | some y => bytesToHex y
      | none => "err"
    | _ => "bad-op")

def handleMD (a : List String) : String :=
  match a with
  | ctor :: rest =>
    withInst rest fun C toks =>
      let dfltOk := match rest with
        | pkg :: _ => (pkgs.find? (·.name == pkg)).map (fun P => P.dflt == (C.inst.t, C.inst.rf, C.inst.rp)) == some true
        | _ => false
      if (ctor == "reg" || ctor == "new" || ctor == "regsize") && !dfltOk then "bad-params" else
      if ctor == "regsize" then
        -- registry metadata: `Size()` of the id = `Size()` of the hasher = length of the model's `Sum(nil)` on a fresh hasher
        match toks, (mdStep C.md C.md.iv (.sum [])).2 with
        | [], .bytes v => let n := toHex v.length; s!"{n} {n} {n}"
        | _, _ => "bad-op"
      else
      match ctor.splitOn ":" with
      | [c, iv] =>
        -- generic constructor `hash.NewMerkleDamgardHasher(perm, iv)`; `genm` = the caller overwrites iv afterwards
        if c != "gen" && c != "genm" then "bad-op" else
        let M : MD := { C.md with iv := parseBytes iv }
        MiMC.runLine (mdStep M) M.iv toks
      | _ => MiMC.runLine (mdStep C.md) C.md.iv toks
  | _ => "bad-op"

/-! ### koalabear/vortex: sponge and compression built on the permutation
`C14 vx comp <keys16> <a0,…,a7>:<b0,…,b7> …`   `C14 vx hash <keys24> <x0,…> …`   `C14 vx hash16 <keys24> <row0;…;row15> …` -/

/-- `CompressPoseidon2`: first 8 entries of `Permutation(a ‖ b)` (width 16) -/
def vxCompress (C : CInst) (a b : List Nat) : List Nat := (permute (natOps C.q) C.inst (a ++ b)).take 8

/-- overwrite `dst` from position 0 with `src` (Go `copy`) -/
def overwrite (dst src : List Nat) : List Nat := src.take dst.length ++ dst.drop src.length

/-- the input completed with zeros to a whole number of rate blocks (16 elements) -/
def vxPad (x : List Nat) : List Nat := x ++ List.replicate ((16 - x.length % 16) % 16) 0

/-- `HashPoseidon2` as DOCUMENTED (`field/koalabear/vortex/hash.go`: "The input is zero-padded so it should be used only in
the context of fixed length hashes"): overwrite-mode sponge, rate 16 (positions 8..23), capacity 8, over the ZERO-PADDED
input. (The Go loop `copy(state[8:], x[i:])` overwrites only the first `len(x) % 16` rate positions with a final partial
block and keeps the output of the previous permutation in the others: that is not this function when `len(x) > 16` and
`16 ∤ len(x)`.) -/
def vxHash (C : CInst) (x : List Nat) : List Nat :=
  let rec go (fuel : Nat) (state : List Nat) (x : List Nat) : List Nat :=
    match fuel with
    | 0 => state
    | fuel + 1 =>
      if x.isEmpty then state else
      let st := state.take 8 ++ overwrite (state.drop 8) (x.take 16)
      go fuel (permute (natOps C.q) C.inst st) (x.drop 16)
  (go ((vxPad x).length + 1) (List.replicate 24 0) (vxPad x)).take 8

def handleVx (a : List String) : String :=
  match a with
  | "comp" :: keys :: rest =>
    match mkInst "koalabear" 16 6 21 (parseKeys keys) with
    | none => "bad-inst"
    | some C => " ".intercalate (rest.map fun tok => match tok.splitOn ":" with
      | [l, r] => showList (vxCompress C (MiMC.parseList l) (MiMC.parseList r))
      | _ => "bad-op")
  | "hash" :: keys :: rest =>
    match mkInst "koalabear" 24 6 21 (parseKeys keys) with
    | none => "bad-inst"
    | some C => " ".intercalate (rest.map fun tok => showList (vxHash C (MiMC.parseList tok)))
  | "hash16" :: keys :: rest =>
    -- `HashPoseidon2x16(rows, leaves, n)`: leaf j = `HashPoseidon2(row j)`; `leaves` is an output parameter (the harness
    -- hands over leaves holding garbage)
    match mkInst "koalabear" 24 6 21 (parseKeys keys) with
    | none => "bad-inst"
    | some C => " ".intercalate (rest.map fun tok =>
      let rows := (tok.splitOn ";").map MiMC.parseList
      if rows.length != 16 || rows.any (fun r => r.length != (rows.headD []).length || r.length % 16 != 0) then "bad-op"
      else ";".intercalate (rows.map fun r => showList (vxHash C r)))
  | _ => "bad-op"

end GV.Poseidon2
