import GnarkVerif.Model.Util
import GnarkVerif.Model.MiMC
import GnarkVerif.Gen.Fields
/-
C14 — ring-SIS hash (`field/{koalabear,babybear,goldilocks}/sis/sis.go`, `ecc/bls12-377/fr/sis/sis.go`), SPECIFICATION:

  Hash(v) = Σᵢ Aᵢ · mᵢ   in  Z_q[X]/(X^d + 1)

where `m` is the limb decomposition of the input (each element in regular form, little-endian base-2^b digits,
b = LogTwoBound), zero-padded and cut into polynomials of `d` coefficients, and `Aᵢ` are the key polynomials
(`RSis.A`, derived with blake2b by the Go code; they travel on the op line and the Go side checks them against `r.A`).
The product is the schoolbook one: `a · b = Σᵢ aᵢ · (Xⁱ · b)` with `X · b` the negacyclic shift.
The Go code computes it with coset FFTs; the two are compared by correspondence.
-/
namespace GV.SIS

/-- base-2^(8·lb) digits, little-endian, of an `eb`-byte element -/
def limbsOf (eb lb e : Nat) : List Nat :=
  (List.range (eb / lb)).map fun j => (e / 256 ^ (lb * j)) % 256 ^ lb

/-- multiplication by X in Z_q[X]/(X^d+1): (b₀,…,b_{d-1}) ↦ (−b_{d-1}, b₀, …, b_{d-2}) -/
def mulX (q : Nat) (b : List Nat) : List Nat :=
  match b.getLast? with
  | none => []
  | some l => ((q - l % q) % q) :: b.dropLast

/-- acc + c·b (coefficient-wise, mod q) -/
def axpy (q : Nat) (c : Nat) (acc b : List Nat) : List Nat := List.zipWith (fun x y => (x + c * y) % q) acc b

/-- schoolbook product in Z_q[X]/(X^d+1), d = b.length: Σᵢ aᵢ · (Xⁱ · b) -/
def negacyclic (q : Nat) (a b : List Nat) : List Nat :=
  (a.foldl (fun (st : List Nat × List Nat) ai => (axpy q ai st.1 st.2, mulX q st.2)) (List.replicate b.length 0, b)).1

def polyAdd (q : Nat) (a b : List Nat) : List Nat := List.zipWith (fun x y => (x + y) % q) a b

/-- cut into `n` chunks of `d` (zero-padded) -/
def chunksOf (d : Nat) : Nat → List Nat → List (List Nat)
  | 0, _ => []
  | n + 1, m => (m.take d ++ List.replicate (d - (m.take d).length) 0) :: chunksOf d n (m.drop d)

structure Params where
  q : Nat
  eb : Nat          -- bytes per field element
  lb : Nat          -- bytes per limb = LogTwoBound / 8
  d : Nat           -- degree
  maxNb : Nat
  A : List (List Nat)

/-- number of key polynomials computed by `NewRSis` -/
def nbPolys (eb lb d maxNb : Nat) : Nat :=
  let n := (eb / lb) * maxNb
  if n % d = 0 then n / d else n / d + 1

/-- `RSis.Hash`; `none` = error (too many elements) -/
def hash (P : Params) (v : List Nat) : Option (List Nat) :=
  if v.length > P.maxNb then none else
  let m := v.flatMap (limbsOf P.eb P.lb)
  let cs := chunksOf P.d P.A.length m
  some ((List.zipWith (fun a c => negacyclic P.q c a) P.A cs).foldl (polyAdd P.q) (List.replicate P.d 0))

/-! line protocol
`C14 sis|sism <pkg> <seed> <logDeg> <logBound> <maxNb> <A: rows ';', entries ','> <v0,v1,…> …`
answer per input: `h0,…,h_{d-1}` | `err`; `err:new` for the whole line when `NewRSis` refuses the parameters.
`sis`: the Go result as is; `sism`: the Go result multiplied by the Montgomery constant R = 2^(64·limbs) (see findings);
`sisd`: as `sis`, into a dirty, re-used output vector (`handleDirty`). -/

/-- (package, field, two-adicity of the field) -/
def pkgs : List (String × String × Nat) :=
  [("koalabear", "koalabear", 24), ("babybear", "babybear", 27), ("goldilocks", "goldilocks", 32),
   ("bls12-377", "bls12_377_fr", 47)]

def parseRows (s : String) : List (List Nat) :=
  if s == "-" then [] else (s.splitOn ";").map MiMC.parseList

def showList (xs : List Nat) : String := if xs.isEmpty then "-" else ",".intercalate (xs.map toHex)

/-- `raw = true` answers `C14 sis` lines: `RSis.Hash` stores each limb as a raw Montgomery word, so what it
returns is `R⁻¹ · Σ Aᵢ·mᵢ` (the in-repo reference `sis.py` documents this "Montgomery constant"); the model adopts
the library's convention there. `raw = false` answers `C14 sism` lines, where the harness multiplies Go's result by
`R` first, i.e. the plain specification `Σ Aᵢ·mᵢ mod (X^d+1)`. Both are checked. -/
def handleWith (raw : Bool) (args : List String) : String :=
  match args with
  | pkg :: _seed :: ld :: lbits :: mx :: a :: rest =>
    match pkgs.find? (·.1 == pkg) with
    | none => "bad-op"
    | some (_, fname, adicity) =>
      match Gen.allFields.find? (·.name == fname) with
      | none => "bad-op"
      | some fc =>
        let ld := parseHexD ld; let lbits := parseHexD lbits; let mx := parseHexD mx
        -- parameter checks of NewRSis (logTwoBound = 0 divides by zero in the Go code: the property asks for an error)
        if lbits > 64 ∨ lbits > fc.bits ∨ lbits % 8 ≠ 0 ∨ lbits = 0 then "err:new"
        else if fc.bytes % (lbits / 8) ≠ 0 then "err:new"
        else if ld + 1 > adicity then "err:new"
        else
          let d := 2 ^ ld
          let A := parseRows a
          if A.length ≠ nbPolys fc.bytes (lbits / 8) d mx ∨ A.any (·.length ≠ d) then "bad-key" else
          let P : Params := { q := fc.q, eb := fc.bytes, lb := lbits / 8, d := d, maxNb := mx, A := A }
          " ".intercalate (rest.map fun tok => match hash P (MiMC.parseList tok) with
            | some h =>
              if raw then
                let rinv := GV.powMod ((2 ^ (fc.word * fc.limbs)) % fc.q) (fc.q - 2) fc.q
                showList (h.map fun x => x * rinv % fc.q)
              else showList h
            | none => "err")
  | _ => "bad-op"

def handle (args : List String) : String := handleWith false args

/-- `C14 sisd … <v>[/g|/f] …`: every input is hashed into ONE output vector that the caller never clears (it holds garbage,
then the previous digest; `/g`, `/f`: the caller refills it with garbage first). `res` is an output parameter of
`RSis.Hash(v, res)`: the digest is `hash P v`, a function of the input alone, so the answers are those of `sis`. -/
def handleDirty (args : List String) : String :=
  match args with
  | pkg :: seed :: ld :: lbits :: mx :: a :: rest =>
    handleWith true (pkg :: seed :: ld :: lbits :: mx :: a :: rest.map fun t => (t.splitOn "/").headD "")
  | _ => "bad-op"

end GV.SIS
