import GnarkVerif.Model.Util
import GnarkVerif.Model.Alg
import GnarkVerif.Model.Pairing
import GnarkVerif.Gen.Fields
/-
C06 (second correspondence family) — the tower functionality that the SLP translator cannot translate
(`Gen/untranslated.json`: big.Int exponentiations, slice functions, error results, fixed-seed chains, Frobenius maps as
p-th powers, square roots, batch inversion, torus / Karabina compression, multiply-accumulate kernels, subgroup membership),
specified by *plain schoolbook tower arithmetic*: every expected value below is a composition of `FOps.mul`, `FOps.inv`,
`FOps.pow` of the reference algebra `GV.Alg` on the towers that `Model/Pairing.lean` sets up for the seven curves (same
non-residues, same coordinate layout) and on `F_p[u]/(u²−β)[v]/(v²−u)` for the small fields.  Nothing of the optimised Go
code (windowing, NAF, GLV split, addition chains, Frobenius coefficient tables, Montgomery batch trick, Granger–Scott /
Karabina formulas, AVX-512 kernels) is modelled: the property says they all equal the generic value.

Line protocol (after the `C06` tag):   <pkg> <Type> <op> <args…>
  an element is ONE token: its base-field coordinates in Go declaration order, hex, comma separated; lists are space separated,
  the empty list is answered as `-`.
  exp|cycexp|expglv x k      x^k for every integer k (k<0: (x⁻¹)^|k|);   cycexp/expglv: same value, x in the cyclotomic subgroup / GT
  fixed <Name> x             x^e, e the integer named by the Go method (Expt ↦ seed t, ExptMinus1 ↦ t−1, ExptHalf ↦ t/2, …)
  frob i x                   x^(p^i)
  legendre x                 x^((p^deg−1)/2) as 1 | -1 | 0
  sqrt x y                   witness form: y·y = x is checked, answer = the smaller of {y,−y} (coordinate-wise lexicographic)
  cmp x y                    -1 | 0 | 1: lexicographic order, highest coordinate first (E2: A1 then A0)
  lexl x                     the highest non-zero coordinate is > (p−1)/2   (x "larger than its negation")
  select c x y               x if c = 0 else y   (c a 64-bit signed integer)
  nrrt x                     `x x`: MulByNonResidue ∘ MulByNonResidueInv and MulByNonResidueInv ∘ MulByNonResidue are the identity
  binv x₁…x_n                x_i⁻¹ (0 ↦ 0)
  invu x                     x⁻¹ (x unitary)
  insub x                    x^r = 1
  ksq n x                    x^(2^n)         (n compressed cyclotomic squarings + Karabina decompression)
  kbatch n x₁…x_m            x_i^(2^n)       (n compressed squarings each, then ONE batch decompression)
  ctorus x                   (C0+1)/C1, `err:invalid` when C1 = 0
  dtorus y                   (y+w)/(y−w)
  torusrt x                  x (C1 ≠ 0), `err:invalid` otherwise      (decompress ∘ compress on unitary x)
  bctorus x₁…x_n / bdtorus y₁…y_n    batch versions; n = 0 or some C1 = 0 ↦ `err:invalid`
  mulacc α n s₁…s_n r₁…r_m   r_i + α·s_i ;  n ≠ m ↦ `panic`
  dirty d <op> <args…>       the answer of `<op> <args…>` (op ∈ dirtyOps): Go runs it with every receiver holding d before the call;
                             ksq: first squaring into the dirty receiver, decompression into a second dirty receiver and in place;
                             kbatch: every slot of the batch held garbage before its first compressed squaring
-/
namespace GV.TowerOps
open GV GV.Alg GV.Pairing

/-- a tower level: the reference dictionary plus the flattening used by the line protocol -/
structure Tow (α : Type) where
  F : FOps α
  p : Nat
  deg : Nat
  ofL : List Nat → α
  toL : α → List Nat

def tFp (p : Nat) : Tow Nat := ⟨fp p, p, 1, fun l => l.headD 0 % p, fun a => [a % p]⟩

def tQuad {α : Type} (A : Tow α) (F : FOps (α × α)) : Tow (α × α) :=
  ⟨F, A.p, 2 * A.deg, fun l => (A.ofL (l.take A.deg), A.ofL (l.drop A.deg)), fun a => A.toL a.1 ++ A.toL a.2⟩

def tCubic {α : Type} (A : Tow α) (F : FOps (α × α × α)) : Tow (α × α × α) :=
  ⟨F, A.p, 3 * A.deg,
   fun l => (A.ofL (l.take A.deg), A.ofL ((l.drop A.deg).take A.deg), A.ofL (l.drop (2 * A.deg))),
   fun a => A.toL a.1 ++ A.toL a.2.1 ++ A.toL a.2.2⟩

def parseEl {α : Type} (T : Tow α) (s : String) : Option α :=
  match (s.splitOn ",").mapM (fun h => if h.isEmpty then none else parseHex h) with
  | some l => if l.length == T.deg then some (T.ofL l) else none
  | none => none

def showL {α : Type} (T : Tow α) (xs : List α) : String :=
  if xs.isEmpty then "-" else " ".intercalate (xs.map T.F.show_)

def powI {α : Type} (F : FOps α) (x : α) (k : Int) : α :=
  if k < 0 then F.pow (F.inv x) k.natAbs else F.pow x k.natAbs

/-- lexicographic `<` on coordinate lists -/
def lexLt : List Nat → List Nat → Bool
  | a :: as, b :: bs => if a < b then true else if b < a then false else lexLt as bs
  | _, _ => false

/-- operations available at every level; `none` = not an op of this group -/
def elOp {α : Type} (T : Tow α) (op : String) (args : List String) : Option String :=
  let F := T.F
  match op, args with
  | "exp", [x, k] =>
    some (match parseEl T x, parseSInt k with
      | some x, some k => F.show_ (powI F x k)
      | _, _ => "bad-op")
  | "frob", [i, x] =>
    some (match parseCount i, parseEl T x with
      | some i, some x => if i > 12 then "bad-op" else F.show_ (F.pow x (T.p ^ i))
      | _, _ => "bad-op")
  | "legendre", [x] =>
    some (match parseEl T x with
      | some x =>
        let y := F.pow x ((T.p ^ T.deg - 1) / 2)
        if F.beq y F.zero then "0" else if F.beq y F.one then "1" else if F.beq y (F.neg F.one) then "-1" else "?"
      | none => "bad-op")
  | "sqrt", [x, y] =>
    some (match parseEl T x, parseEl T y with
      | some x, some y =>
        if !(F.beq (F.mul y y) x) then "bad-witness"
        else let ny := F.neg y; F.show_ (if lexLt (T.toL ny) (T.toL y) then ny else y)
      | _, _ => "bad-op")
  | "cmp", [x, y] =>
    some (match parseEl T x, parseEl T y with
      | some x, some y =>
        let a := (T.toL x).reverse; let b := (T.toL y).reverse
        if lexLt a b then "-1" else if lexLt b a then "1" else "0"
      | _, _ => "bad-op")
  | "lexl", [x] =>
    some (match parseEl T x with
      | some x =>
        match (T.toL x).reverse.find? (· != 0) with
        | some c => boolStr (c > (T.p - 1) / 2)
        | none => "0"
      | none => "bad-op")
  | "select", [c, x, y] =>
    some (match parseSInt c, parseEl T x, parseEl T y with
      | some c, some x, some y =>
        if c < -(2 ^ 63 : Int) || c ≥ (2 ^ 63 : Int) then "bad-op" else F.show_ (if c == 0 then x else y)
      | _, _, _ => "bad-op")
  | "nrrt", [x] =>
    some (match parseEl T x with
      | some x => F.show_ x ++ " " ++ F.show_ x
      | none => "bad-op")
  | "binv", xs =>
    some (match xs.mapM (parseEl T) with
      | some xs => showL T (xs.map F.inv)
      | none => "bad-op")
  | "mulacc", a :: n :: rest =>
    some (match parseEl T a, parseCount n with
      | some a, some n =>
        if rest.length < n then "bad-op" else
        match (rest.take n).mapM parseHex, (rest.drop n).mapM (parseEl T) with
        | some ss, some rs =>
          if rs.length != n then "panic"
          else showL T (List.zipWith (fun r s => F.add r (F.mul a (F.ofNat s))) rs ss)
        | _, _ => "bad-op"
      | _, _ => "bad-op")
  | _, _ => none

/-- operations of the top level `κ = η[w]/(w² − γ)` (GT and its torus) -/
def gtOp {η : Type} (H : Tow η) (T : Tow (η × η)) (r : Nat) (fixed : String → Option Int) (op : String) (args : List String) : String :=
  let F := T.F
  let HF := H.F
  let compress (x : η × η) : Option η := if HF.beq x.2 HF.zero then none else some (HF.mul (HF.add x.1 HF.one) (HF.inv x.2))
  let decompress (y : η) : η × η := F.mul (F.inv (y, HF.neg HF.one)) (y, HF.one)
  match op, args with
  | "cycexp", [x, k] | "expglv", [x, k] =>
    match parseEl T x, parseSInt k with
    | some x, some k => F.show_ (powI F x k)
    | _, _ => "bad-op"
  | "fixed", [name, x] =>
    match fixed name, parseEl T x with
    | some e, some x => F.show_ (powI F x e)
    | _, _ => "bad-op"
  | "invu", [x] =>
    match parseEl T x with
    | some x => F.show_ (F.inv x)
    | none => "bad-op"
  | "insub", [x] =>
    match parseEl T x with
    | some x => boolStr (F.beq (F.pow x r) F.one)
    | none => "bad-op"
  | "ksq", [n, x] =>
    match parseCount n, parseEl T x with
    | some n, some x => F.show_ ((List.range n).foldl (fun y _ => F.mul y y) x)
    | _, _ => "bad-op"
  | "kbatch", n :: xs =>
    match parseCount n, xs.mapM (parseEl T) with
    | some n, some xs => showL T (xs.map (fun x => (List.range n).foldl (fun y _ => F.mul y y) x))
    | _, _ => "bad-op"
  | "ctorus", [x] =>
    match parseEl T x with
    | some x => match compress x with
      | some y => HF.show_ y
      | none => "err:invalid"
    | none => "bad-op"
  | "dtorus", [y] =>
    match parseEl H y with
    | some y => F.show_ (decompress y)
    | none => "bad-op"
  | "torusrt", [x] =>
    match parseEl T x with
    | some x => if HF.beq x.2 HF.zero then "err:invalid" else F.show_ x
    | none => "bad-op"
  | "bctorus", xs =>
    match xs.mapM (parseEl T) with
    | some xs =>
      match xs.mapM compress with
      | some ys => if ys.isEmpty then "err:invalid" else showL H ys
      | none => "err:invalid"
    | none => "bad-op"
  | "bdtorus", ys =>
    match ys.mapM (parseEl H) with
    | some ys => if ys.isEmpty then "err:invalid" else showL T (ys.map decompress)
    | none => "bad-op"
  | _, _ => "bad-op"

/-- the ops whose Go method writes into a receiver distinct from its operands -/
def dirtyOps : List String := ["exp", "cycexp", "expglv", "fixed", "frob", "invu", "sqrt", "select", "nrrt", "ksq", "kbatch"]

/-- `dirty d <op> <args…>`: the Go side runs `<op>` with every receiver pre-loaded with the full element `d` instead of the Go
zero value.  The specification is by value: the receiver's previous contents are not an input, so the answer is the answer
of `<op> <args…>` (`d` is only required to be an element of the level; `dirty` does not nest). -/
def withDirty {α : Type} (T : Tow α) (f : String → List String → String) (op : String) (args : List String) : String :=
  match op, args with
  | "dirty", d :: op' :: args' =>
    if dirtyOps.contains op' then
      match parseEl T d with
      | some _ => f op' args'
      | none => "bad-op"
    else "bad-op"
  | "dirty", _ => "bad-op"
  | _, _ => f op args

def top {η : Type} (H : Tow η) (T : Tow (η × η)) (r : Nat) (fixed : String → Option Int) (op : String) (args : List String) : String :=
  withDirty T (fun op args =>
    match elOp T op args with
    | some s => s
    | none => gtOp H T r fixed op args) op args

def lvl {α : Type} (T : Tow α) (op : String) (args : List String) : String :=
  withDirty T (fun op args => (elOp T op args).getD "bad-op") op args

/-- the integer a fixed-exponent method is named after (`t` = seed of the curve, `c1 c2` the BW6 cofactor constants) -/
def fixedExp (t c1 c2 : Int) : String → Option Int
  | "Expt" => some t
  | "ExptHalf" => some (t / 2)
  | "ExptMinus1" => some (t - 1)
  | "ExptPlus1" => some (t + 1)
  | "ExptMinus1Square" => some ((t - 1) * (t - 1))
  | "ExptMinus1Squared" => some ((t - 1) * (t - 1))
  | "ExptMinus1Div3" => some ((t - 1) / 3)
  | "ExptSquarePlus1" => some (t * t + 1)
  | "Expc1" => if c1 == 0 then none else some c1
  | "Expc2" => if c2 == 0 then none else some c2
  | _ => none

/-- `F_p ⊂ E2 ⊂ E6 ⊂ E12`: levels rebuilt from the dictionaries of the pairing curve (`C.T` = E2, `C.K` = E12) -/
def handle12 (C : PCurve T2 T12) (t : Int) (ty op : String) (args : List String) : String :=
  let E2 := tQuad (tFp C.p) C.T
  let E6 := tCubic E2 (cubic C.T C.xi)
  let E12 := tQuad E6 C.K
  match ty with
  | "E2" => lvl E2 op args
  | "E6" => lvl E6 op args
  | "E12" => top E6 E12 C.r (fixedExp t 0 0) op args
  | _ => "bad-op"

/-- `F_p ⊂ E2 ⊂ E4 ⊂ E12 ⊂ E24` (`C.T` = E4, `C.K` = E24); β and γ are read off the E4 dictionary -/
def handle24 (C : PCurve T4 T24) (t : Int) (ty op : String) (args : List String) : String :=
  let u : T4 := ((0, 1), (0, 0))
  let v : T4 := ((0, 0), (1, 0))
  let β := (C.T.mul u u).1.1
  let γ := (C.T.mul v v).1
  let E2 := tQuad (tFp C.p) (F2 C.p β)
  let E4 := tQuad E2 C.T
  let E12 := tCubic E4 (G12 C.p β γ)
  let E24 := tQuad E12 C.K
  match ty with
  | "E2" => lvl E2 op args
  | "E4" => lvl E4 op args
  | "E12" => lvl E12 op args
  | "E24" => top E12 E24 C.r (fixedExp t 0 0) op args
  | _ => "bad-op"

/-- `F_p ⊂ E3 ⊂ E6` (`C.K` = E6); β is read off the E6 dictionary -/
def handle6 (C : PCurve Nat S6) (t c1 c2 : Int) (ty op : String) (args : List String) : String :=
  let v : S6 := ((0, 1, 0), (0, 0, 0))
  let β := (C.K.mul v (C.K.mul v v)).1.1
  let E3 := tCubic (tFp C.p) (F3 C.p β)
  let E6 := tQuad E3 C.K
  match ty with
  | "E3" => lvl E3 op args
  | "E6" => top E3 E6 C.r (fixedExp t c1 c2) op args
  | _ => "bad-op"

/-- small fields: `E2 = F_p[u]/(u²−β)`, `E4 = E2[v]/(v²−u)` (doc.go of `/repo/field/<f>/extensions`) -/
def handleSmall (p β : Nat) (hasE4 : Bool) (ty op : String) (args : List String) : String :=
  let E2 := tQuad (tFp p) (quad (fp p) β)
  let E4 := tQuad E2 (quad (quad (fp p) β) (0, 1))
  match ty with
  | "E2" => lvl E2 op args
  | "E4" => if hasE4 then lvl E4 op args else "bad-op"
  | _ => "bad-op"

def seedOf {τ κ : Type} (C : PCurve τ κ) : Int :=
  match C.loop with
  | .bn x => x
  | .bls x => x
  | .bw6 _ _ => 0

open GV.Gen in
def handle (ws : List String) : String :=
  match ws with
  | pkg :: ty :: op :: args =>
    match pkg with
    | "bn254" => handle12 bn254 (seedOf bn254) ty op args
    | "bls12_381" => handle12 bls12_381 (seedOf bls12_381) ty op args
    | "bls12_377" => handle12 bls12_377 (seedOf bls12_377) ty op args
    | "bls24_315" => handle24 bls24_315 (seedOf bls24_315) ty op args
    | "bls24_317" => handle24 bls24_317 (seedOf bls24_317) ty op args
    | "bw6_761" => handle6 bw6_761 9586122913090633729 11 103 ty op args
    | "bw6_633" => handle6 bw6_633 (-3218079743) (-3) 13 ty op args
    | "koalabear" => handleSmall koalabear.q 3 true ty op args
    | "babybear" => handleSmall babybear.q 11 true ty op args
    | "goldilocks" => handleSmall goldilocks.q 7 false ty op args
    | _ => "bad-op"
  | _ => "bad-op"

end GV.TowerOps
