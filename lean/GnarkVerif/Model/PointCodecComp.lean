import GnarkVerif.Model.PointCodec
import GnarkVerif.Model.Sha256
/-
C07 — COMPOSITE objects: serialisations made of several parts, each part read by its own `Decoder` (with its own
subgroup option) on the same reader, resp. written by its own `Encoder` on the same writer:
`kzg.SRS` = `ProvingKey` (`[]G1Affine`) then `VerifyingKey` (`G2[0]`, `G2[1]`, `G1`, then the coefficients of the
precomputed lines), `pedersen.ProvingKey` = two `[]G1Affine` of equal length, `pedersen.VerifyingKey` = two `G2Affine`.

The property: the first part that fails fails the whole read (no later part turns the error into nil); a write stops at
the first failed `Write` and reports it.

Line coefficients (`VerifyingKey.Lines`): base-field words written as their `limbs` machine words (least significant
word first, every word big-endian; the words hold the Montgomery form). The model does not interpret them; it demands
that every word list denotes a number below the modulus (a canonical field element) and re-encodes them unchanged.
-/
namespace GV.PointCodec
open GV

variable {α β : Type} [DecidableEq α] [DecidableEq β]

/-- one part of a composite: the option of its `Decoder`, the values it decodes -/
structure Part where
  sub : Bool
  tys : List Ty

/-- `ReadFrom` of a composite: the parts in order; the first failing part ends the read with its error -/
def readParts (E : Env α β) : List Part → List UInt8 → List (Val α β) × Option Err × Nat
  | [], _ => ([], none, 0)
  | p :: ps, bs =>
    match decodeSeq E p.sub p.tys bs with
    | (vs, some e, n) => (vs, some e, n)
    | (vs, none, n) =>
      let r := readParts E ps (bs.drop n)
      (vs ++ r.1, r.2.1, n + r.2.2)

/-- value of a base-field word list: `k` words of 8 big-endian bytes, least significant word first -/
def limbsVal : Nat → List UInt8 → Nat
  | 0, _ => 0
  | k+1, bs => beToNat (bs.take 8) + 2 ^ 64 * limbsVal k (bs.drop 8)

/-- every coefficient (`fb` bytes each) of a block of line coefficients is a canonical element -/
def linesCanonical (q fb : Nat) : Nat → List UInt8 → Bool
  | 0, _ => true
  | k+1, bs => decide (limbsVal (fb / 8) bs < q) && linesCanonical q fb k (bs.drop fb)

/-- reading `k` line coefficients of `fb` bytes. `be = false` (coefficients in an extension field, written word by
word): all of them are read (a short stream is an error that consumed what was left), then validated.
`be = true` (coefficients in the base field itself, BW6: the `*fp.Element` case of the `Decoder`): `k` canonical
big-endian elements one after the other, the first bad one ends the read -/
def readLines (be : Bool) (q fb k : Nat) (bs : List UInt8) : Except Err (List UInt8) × Nat :=
  if be then
    match decMany (decElem q fb) k bs with
    | ⟨.error e, n⟩ => (.error e, n)
    | ⟨.ok _, n⟩ => (.ok (bs.take n), n)
  else if bs.length < k * fb then (.error .short, bs.length)
  else if linesCanonical q fb k bs then (.ok (bs.take (k * fb)), k * fb) else (.error .noncanon, k * fb)

/-- a composite with a block of line coefficients after its parts -/
def readComposite (E : Env α β) (ps : List Part) (be : Bool) (q fb k : Nat) (bs : List UInt8) :
    List (Val α β) × List UInt8 × Option Err × Nat :=
  match readParts E ps bs with
  | (vs, some e, n) => (vs, [], some e, n)
  | (vs, none, n) =>
    if k = 0 then (vs, [], none, n) else
    match readLines be q fb k (bs.drop n) with
    | (.error e, m) => (vs, [], some e, n + m)
    | (.ok ls, m) => (vs, ls, none, n + m)

/-- the `Write` calls of a composite: those of its values in order, then the line coefficients -/
def compChunks (E : Env α β) (raw : Bool) (vs : List (Val α β)) (lines : List UInt8) : List (List UInt8) :=
  (vs.map (encodeChunks E raw)).flatten ++ [lines]

/-- the encoding of a composite -/
def compBytes (E : Env α β) (raw : Bool) (vs : List (Val α β)) (lines : List UInt8) : List UInt8 :=
  encodeSeq E raw vs ++ lines

/-- `WriteTo` of a composite on the writer `w`: it stops at the first failed `Write` -/
def compWriteTo (E : Env α β) (raw : Bool) (w : Budgets) (vs : List (Val α β)) (lines : List UInt8) :
    List UInt8 × Bool × Budgets :=
  wChunks w (compChunks E raw vs lines)

end GV.PointCodec
