import GnarkVerif.Model.PointCodec
import GnarkVerif.Model.PointCodecComp
import GnarkVerif.Model.SigParams
import GnarkVerif.Gen.Fields
/-
C07 — concrete instances of the point codec model (coordinate fields Fp, Fp², Fp⁴ of the ten curve packages with a
marshal.go), the subgroup predicate `[r]P = O`, the table of curve constants and the line-protocol handler.
-/
namespace GV.PointCodec
open GV GV.Alg

/-! ## coordinate fields -/

/-- a field with its marshal layout, square roots and the lexicographic order of the Go code -/
structure FieldK (α : Type) where
  F : FOps α
  nc : Nat
  toComps : α → List Nat      -- marshal order
  ofComps : List Nat → α
  sqrt : α → Option α
  lex : α → Bool
  isZero : α → Bool

/-- the prime field of a field package (`P.q`); square roots by the reference Tonelli–Shanks of C01 -/
def FieldK.base (P : Field.Params) : FieldK Nat where
  F := fp P.q
  nc := 1
  toComps x := [x]
  ofComps l := l.headD 0
  sqrt a := (Field.sqrtRegular P a).map (· % P.q)
  lex y := decide (y > (P.q - 1) / 2)
  isZero x := x == 0

/-- `K[u]/(u² − β)`; marshal order `A1 | A0`; `LexicographicallyLargest` looks at `A1` first; square roots by the
norm method, checked by squaring (so a returned value is always a root) -/
def FieldK.ext {α : Type} (K : FieldK α) (β : α) : FieldK (α × α) :=
  let F := K.F
  let F2 := quad K.F β
  { F := F2
    nc := 2 * K.nc
    toComps := fun x => K.toComps x.2 ++ K.toComps x.1
    ofComps := fun l => (K.ofComps (l.drop K.nc), K.ofComps (l.take K.nc))
    isZero := fun x => K.isZero x.1 && K.isZero x.2
    lex := fun x => if K.isZero x.2 then K.lex x.1 else K.lex x.2
    sqrt := fun a =>
      let check (r : α × α) : Option (α × α) := if F2.beq (F2.mul r r) a then some r else none
      if K.isZero a.2 then
        match K.sqrt a.1 with
        | some s => check (s, F.zero)
        | none =>
          match K.sqrt (F.mul a.1 (F.inv β)) with
          | some s => check (F.zero, s)
          | none => none
      else
        let n := F.sub (F.mul a.1 a.1) (F.mul β (F.mul a.2 a.2))
        match K.sqrt n with
        | none => none
        | some s =>
          let half := F.inv (F.ofNat 2)
          let d :=
            match K.sqrt (F.mul (F.add a.1 s) half) with
            | some x0 => if K.isZero x0 then K.sqrt (F.mul (F.sub a.1 s) half) else some x0
            | none => K.sqrt (F.mul (F.sub a.1 s) half)
          match d with
          | none => none
          | some x0 => check (x0, F.mul a.2 (F.inv (F.add x0 x0))) }

/-! ## subgroup predicate: `[r]P = O`, Jacobian coordinates (no inversion) -/

structure Jac (α : Type) where
  x : α
  y : α
  z : α

def jacDouble {α : Type} (F : FOps α) (a : α) (P : Jac α) : Jac α :=
  let xx := F.mul P.x P.x
  let yy := F.mul P.y P.y
  let yyyy := F.mul yy yy
  let zz := F.mul P.z P.z
  let t := F.add P.x yy
  let s0 := F.sub (F.sub (F.mul t t) xx) yyyy
  let s := F.add s0 s0
  let m := F.add (F.add (F.add xx xx) xx) (F.mul a (F.mul zz zz))
  let x3 := F.sub (F.mul m m) (F.add s s)
  let y8 := F.mul (F.ofNat 8) yyyy
  let y3 := F.sub (F.mul m (F.sub s x3)) y8
  let yz := F.add P.y P.z
  let z3 := F.sub (F.sub (F.mul yz yz) yy) zz
  ⟨x3, y3, z3⟩

def jacAdd {α : Type} (F : FOps α) (a : α) (P Q : Jac α) : Jac α :=
  if F.beq P.z F.zero then Q else if F.beq Q.z F.zero then P else
  let z1z1 := F.mul P.z P.z
  let z2z2 := F.mul Q.z Q.z
  let u1 := F.mul P.x z2z2
  let u2 := F.mul Q.x z1z1
  let s1 := F.mul (F.mul P.y Q.z) z2z2
  let s2 := F.mul (F.mul Q.y P.z) z1z1
  if F.beq u1 u2 then
    if F.beq s1 s2 then jacDouble F a P else ⟨F.one, F.one, F.zero⟩
  else
    let h := F.sub u2 u1
    let r := F.sub s2 s1
    let h2 := F.mul h h
    let h3 := F.mul h h2
    let v := F.mul u1 h2
    let x3 := F.sub (F.sub (F.mul r r) h3) (F.add v v)
    let y3 := F.sub (F.mul r (F.sub v x3)) (F.mul s1 h3)
    ⟨x3, y3, F.mul h (F.mul P.z Q.z)⟩

/-- `[k]P` (left-to-right double and add on the bits of `k`) -/
def jacSmul {α : Type} (F : FOps α) (a : α) (k : Nat) (P : Jac α) : Jac α :=
  let rec go : Nat → Jac α → Jac α
    | 0, acc => acc
    | i+1, acc =>
      let acc := jacDouble F a acc
      go i (if k.testBit i then jacAdd F a acc P else acc)
  go (k.log2 + 1) ⟨F.one, F.one, F.zero⟩

def isTorsion {α : Type} (F : FOps α) (a : α) (r : Nat) (P : α × α) : Bool :=
  F.beq (jacSmul F a r ⟨P.1, P.2, F.one⟩).z F.zero

/-! ## codecs of the curve packages -/

def mkCodec {α : Type} (K : FieldK α) (L : Layout) (p fb : Nat) (a b : α) (r : Nat) : Codec α :=
  let F := K.F
  { L := L, p := p, fb := fb, c := K.nc
    toComps := K.toComps, ofComps := K.ofComps
    zero := F.zero, neg := F.neg
    sq := fun y => F.mul y y
    rhs := fun x => F.add (F.add (F.mul x (F.mul x x)) (F.mul a x)) b
    sqrt := K.sqrt, lex := K.lex
    inSub := fun P => isTorsion F a r P }

inductive G2Kind | none | fp | e2 | e4
deriving DecidableEq

/-- constants of a curve package; `b`, twist `b`, tower non-residues as the library holds them (checked by the
`params` op against values the harness derives from the generators through the library's own arithmetic) -/
structure CurveDesc where
  name : String
  fpC : Gen.FieldConsts
  frC : Gen.FieldConsts
  L : Layout
  a : Nat
  b : Int
  g2 : G2Kind
  g2b : List Nat        -- natural order A0,A1 / B0.A0,B0.A1,B1.A0,B1.A1
  nr : List (List Nat)  -- u² ∈ Fp (as an Fp² / Fp⁴ element), v² ∈ Fp²
  stream : Bool
  full : Bool           -- the full type switch of the current template (stark-curve has the reduced one)

def curves : List CurveDesc := [
  { name := "bn254", fpC := Gen.bn254_fp, frC := Gen.bn254_fr, L := .two, a := 0, b := 3, g2 := .e2,
    g2b := [0x2b149d40ceb8aaae81be18991be06ac3b5b4c5e559dbefa33267e6dc24a138e5, 0x9713b03af0fed4cd2cafadeed8fdf4a74fa084e52d1852e4a2bd0685c315d2],
    nr := [[0x30644e72e131a029b85045b68181585d97816a916871ca8d3c208c16d87cfd46, 0]], stream := true, full := true },
  { name := "bls12-377", fpC := Gen.bls12_377_fp, frC := Gen.bls12_377_fr, L := .three, a := 0, b := 1, g2 := .e2,
    g2b := [0, 0x10222f6db0fd6f343bd03737460c589dc7b4f91cd5fd889129207b63c6bf8000dd39e5c1ccccccd1c9ed9999999999a],
    nr := [[0x1ae3a4617c510eac63b05c06ca1493b1a22d9f300f5138f1ef3622fba094800170b5d44300000008508bffffffffffc, 0]], stream := true, full := true },
  { name := "bls12-381", fpC := Gen.bls12_381_fp, frC := Gen.bls12_381_fr, L := .three, a := 0, b := 4, g2 := .e2,
    g2b := [4, 4],
    nr := [[0x1a0111ea397fe69a4b1ba7b6434bacd764774b84f38512bf6730d2a0f6b0f6241eabfffeb153ffffb9feffffffffaaaa, 0]], stream := true, full := true },
  { name := "bls24-315", fpC := Gen.bls24_315_fp, frC := Gen.bls24_315_fr, L := .three, a := 0, b := 1, g2 := .e4,
    g2b := [0, 0, 0, 0xbb6b62e0d9aad15bafe3ee23ebbfcc49a7a9dcb688f071453fd497bdf5d476875ec56258a4ec4f],
    nr := [[13, 0, 0, 0], [0, 1, 0, 0]], stream := true, full := true },
  { name := "bls24-317", fpC := Gen.bls24_317_fp, frC := Gen.bls24_317_fr, L := .three, a := 0, b := 4, g2 := .e4,
    g2b := [0, 0, 4, 0],
    nr := [[0x1058ca226f60892cf28fc5a0b7f9d039169a61e684c73446d6f339e43424bf7e8d512e565dab2aaa, 0, 0, 0], [1, 1, 0, 0]],
    stream := true, full := true },
  { name := "bw6-633", fpC := Gen.bw6_633_fp, frC := Gen.bw6_633_fr, L := .three, a := 0, b := 4, g2 := .fp,
    g2b := [8], nr := [], stream := true, full := true },
  { name := "bw6-761", fpC := Gen.bw6_761_fp, frC := Gen.bw6_761_fr, L := .three, a := 0, b := -1, g2 := .fp,
    g2b := [4], nr := [], stream := true, full := true },
  { name := "grumpkin", fpC := Gen.grumpkin_fp, frC := Gen.grumpkin_fr, L := .two, a := 0, b := -17, g2 := .none,
    g2b := [], nr := [], stream := true, full := true },
  { name := "stark-curve", fpC := Gen.stark_curve_fp, frC := Gen.stark_curve_fr, L := .two, a := 1,
    b := 0x6f21413efbe40de150e596d72f7a8c5609ad26c15c915c1f4cdfcb99cee9e89, g2 := .none,
    g2b := [], nr := [], stream := true, full := false },
  { name := "secp256k1", fpC := Gen.secp256k1_fp, frC := Gen.secp256k1_fr, L := .raw, a := 0, b := 7, g2 := .none,
    g2b := [], nr := [], stream := false, full := false } ]

def CurveDesc.p (d : CurveDesc) : Nat := d.fpC.q
def CurveDesc.r (d : CurveDesc) : Nat := d.frC.q
def CurveDesc.b1 (d : CurveDesc) : Nat := (d.b % (d.p : Int)).toNat
/-- the Montgomery parameter block of the base field (only `q` matters here; same value as `Field.ofConsts`) -/
def CurveDesc.fpP (d : CurveDesc) : Field.Params := ⟨d.fpC.q, d.fpC.word, d.fpC.limbs, d.fpC.qInvNeg⟩

def CurveDesc.codec1 (d : CurveDesc) : Codec Nat :=
  mkCodec (FieldK.base d.fpP) d.L d.p d.fpC.bytes (d.a % d.p) d.b1 d.r

abbrev E2 := Nat × Nat
abbrev E4 := E2 × E2

def CurveDesc.k2 (d : CurveDesc) : FieldK E2 := (FieldK.base d.fpP).ext ((d.nr.headD []).headD 0)
def CurveDesc.k4 (d : CurveDesc) : FieldK E4 :=
  let v := d.nr.getD 1 []
  d.k2.ext (v.getD 0 0, v.getD 1 0)

def CurveDesc.codecFp2 (d : CurveDesc) : Codec Nat :=
  mkCodec (FieldK.base d.fpP) d.L d.p d.fpC.bytes 0 (d.g2b.headD 0) d.r
def CurveDesc.codecE2 (d : CurveDesc) : Codec E2 :=
  mkCodec d.k2 d.L d.p d.fpC.bytes (0, 0) (d.g2b.getD 0 0, d.g2b.getD 1 0) d.r
def CurveDesc.codecE4 (d : CurveDesc) : Codec E4 :=
  mkCodec d.k4 d.L d.p d.fpC.bytes ((0, 0), (0, 0))
    ((d.g2b.getD 0 0, d.g2b.getD 1 0), (d.g2b.getD 2 0, d.g2b.getD 3 0)) d.r

/-! ## line protocol -/

def hexList (l : List Nat) : String := ",".intercalate (l.map toHex)
def parseHexList (s : String) : List Nat := (s.splitOn ",").map parseHexD

variable {α β : Type} [DecidableEq α] [DecidableEq β]

/-- coordinates travel in natural component order = reverse marshal order -/
def showPt (C : Codec α) : Pt α → String
  | none => "inf"
  | some (x, y) => hexList (C.toComps x).reverse ++ ";" ++ hexList (C.toComps y).reverse

def parsePt (C : Codec α) (s : String) : Option (Pt α) :=
  if s == "inf" then some none else
  match s.splitOn ";" with
  | [xs, ys] =>
    let x := parseHexList xs; let y := parseHexList ys
    if x.length == C.c && y.length == C.c then some (some (C.ofComps x.reverse, C.ofComps y.reverse)) else none
  | _ => none

def showPts (C : Codec α) (l : List (Pt α)) : String :=
  if l.isEmpty then "-" else "|".intercalate (l.map (showPt C))

def parsePts (C : Codec α) (s : String) : Option (List (Pt α)) :=
  if s == "-" then some [] else (s.splitOn "|").mapM (parsePt C)

def show1 (l : List Nat) : String := if l.isEmpty then "-" else hexList l
def show2 (l : List (List Nat)) : String := if l.isEmpty then "=" else "/".intercalate (l.map show1)
def show3 (l : List (List (List Nat))) : String := if l.isEmpty then "~" else "+".intercalate (l.map show2)
def parse1 (s : String) : List Nat := if s == "-" then [] else parseHexList s
def parse2 (s : String) : List (List Nat) := if s == "=" then [] else (s.splitOn "/").map parse1
def parse3 (s : String) : List (List (List Nat)) := if s == "~" then [] else (s.splitOn "+").map parse2

def showVal (E : Env α β) : Val α β → String
  | .u k v => "u" ++ toString (8 * k) ++ ":" ++ toHex v
  | .fr v => "fr:" ++ toHex v
  | .fp v => "fp:" ++ toHex v
  | .g1 P => "g1:" ++ showPt E.C1 P
  | .g2 P => "g2:" ++ showPt E.C2 P
  | .g1s l => "g1s:" ++ showPts E.C1 l
  | .g2s l => "g2s:" ++ showPts E.C2 l
  | .frs l => "frs:" ++ show1 l
  | .fps l => "fps:" ++ show1 l
  | .frss l => "frss:" ++ show2 l
  | .frsss l => "frsss:" ++ show3 l
  | .u64s l => "u64s:" ++ show1 l
  | .u64ss l => "u64ss:" ++ show2 l

def parseTy (hasG2 full : Bool) (s : String) : Option Ty :=
  match s with
  | "u8" => some (.u 1) | "u16" => some (.u 2) | "u32" => some (.u 4) | "u64" => some (.u 8)
  | "fr" => some .fr | "fp" => some .fp | "g1" => some .g1 | "g1s" => some .g1s
  | "frs" => some .frs | "fps" => some .fps
  | "g2" => if hasG2 then some .g2 else none
  | "g2s" => if hasG2 then some .g2s else none
  | "frss" => if full then some .frss else none
  | "frsss" => if full then some .frsss else none
  | "u64s" => if full then some .u64s else none
  | "u64ss" => if full then some .u64ss else none
  -- fr.Vector / *fr.Vector / fp.Vector: the wire format of []fr.Element / []fp.Element
  | "frv" => if full then some .frs else none
  | "frvp" => if full then some .frs else none
  | "fpv" => if full then some .fps else none
  -- *[]G?Affine handed to Encode: same wire format
  | "g1sp" => if full then some .g1s else none
  | "g2sp" => if full && hasG2 then some .g2s else none
  | _ => none

def parseItem (E : Env α β) (hasG2 full : Bool) (item : String) : Option (Val α β) :=
  match item.splitOn ":" with
  | [k, s] =>
    match parseTy hasG2 full k with
    | some (.u n) => some (.u n (parseHexD s))
    | some .fr => some (.fr (parseHexD s))
    | some .fp => some (.fp (parseHexD s))
    | some .g1 => (parsePt E.C1 s).map .g1
    | some .g2 => (parsePt E.C2 s).map .g2
    | some .g1s => (parsePts E.C1 s).map .g1s
    | some .g2s => (parsePts E.C2 s).map .g2s
    | some .frs => some (.frs (parse1 s))
    | some .fps => some (.fps (parse1 s))
    | some .frss => some (.frss (parse2 s))
    | some .frsss => some (.frsss (parse3 s))
    | some .u64s => some (.u64s (parse1 s))
    | some .u64ss => some (.u64ss (parse2 s))
    | none => none
  | _ => none

def showDec (C : Codec α) (sub : Bool) (buf : List UInt8) : String :=
  match C.setBytes sub buf with
  | .error e => e.str
  | .ok (P, n) => "ok " ++ showPt C P ++ " " ++ toHex n

/-- ops that concern one group -/
def groupOp (C : Codec α) (args : List String) : String :=
  match args with
  | ["enc", mode, pt] =>
    match parsePt C pt with
    | none => "bad-op"
    | some P =>
      if mode == "c" then (if C.L == .raw then "bad-op" else bytesToHex (C.encCompressed P))
      else bytesToHex (C.encRaw P)
  | ["dec", sub, hex] =>
    -- `<pt>><hex>`: the receiver holds `<pt>` before the call; decoding is a function of the bytes only
    match hex.splitOn ">" with
    | [h] => showDec C (sub == "1") (parseBytes h)
    | [pt, h] => if (parsePt C pt).isSome then showDec C (sub == "1") (parseBytes h) else "bad-op"
    | _ => "bad-op"
  | ["insub", pt] =>
    match parsePt C pt with
    | some (some (x, y)) =>
      if C.sq y = C.rhs x then boolStr (C.inSub (x, y)) ++ " " ++ boolStr (C.inSub (x, y)) else "bad-op"
    | _ => "bad-op"
  | _ => "bad-op"

/-- `sencw` / `sencn`: `Encode` calls on ONE encoder whose writer has the budgets `buds` (`-`: none).
`sencw` → per call `ok` / `err`, the number of bytes the writer accepted, the bytes; `sencn` → per call the advance of
`BytesWritten` (= the number of bytes the writer accepted during the call) -/
def failOp (E : Env α β) (hasG2 full counter : Bool) (raw buds : String) (items : List String) : String :=
  match items.mapM (parseItem E hasG2 full) with
  | none => "bad-op"
  | some vs =>
    let rs := encodeSeqTo E (raw == "1") (parse1 buds) vs
    if counter then "n=" ++ ",".intercalate (rs.map (fun r => toHex r.1.length))
    else
      let out := (rs.map (·.1)).flatten
      ",".intercalate (rs.map (fun r => if r.2 then "err" else "ok")) ++ " w=" ++ toHex out.length ++ " " ++ bytesToHex out

def streamOp (E : Env α β) (hasG2 full : Bool) (args : List String) : String :=
  match args with
  | "sencw" :: raw :: buds :: items => failOp E hasG2 full false raw buds items
  | "sencn" :: raw :: buds :: items => failOp E hasG2 full true raw buds items
  | "senc" :: raw :: items =>
    match items.mapM (parseItem E hasG2 full) with
    | none => "bad-op"
    | some vs =>
      let b := encodeSeq E (raw == "1") vs
      toHex b.length ++ " " ++ bytesToHex b
  | ["sdec", sub, _chunk, tys, hex] =>
    -- a type token `ty@slot` names the destination VARIABLE the harness decodes into (tokens with the same text share
    -- one variable along the calls made on ONE Decoder); by value a call's answer does not depend on it
    match (tys.splitOn ",").mapM (fun t => parseTy hasG2 full ((t.splitOn "@").headD t)) with
    | none => "bad-op"
    | some ts =>
      -- a history `hexA>hexB>…`: every stream is decoded into the same destination variables; by value, the
      -- outcome is that of the last stream alone
      -- (`decodeHist`, theorem `C07_history_independent`)
      let (vs, e, n) := decodeSeq E (sub == "1") ts (parseBytes ((hex.splitOn ">").getLast?.getD "-"))
      let out := vs.map (showVal E) ++ (match e with | some e => [e.str] | none => [])
      " ".intercalate (out ++ ["n=" ++ toHex n ++ " c=" ++ toHex n])
  | _ => "bad-op"

/-! ## composite objects (`cdec` / `cenc`) -/

/-- base-field words in `kzg.VerifyingKey.Lines` = 2·2·(number of lines)·2·(degree of the coefficient field):
66 lines over Fp² (bn254), 63 over Fp² (bls12), 32 over Fp⁴ (bls24), 158 / 189 over Fp (bw6) -/
def linesWords (cname : String) : Nat :=
  match cname with
  | "bn254" => 8 * 66 * 2 | "bls12-377" => 8 * 63 * 2 | "bls12-381" => 8 * 63 * 2
  | "bls24-315" => 8 * 32 * 4 | "bls24-317" => 8 * 32 * 4 | "bw6-633" => 8 * 158 | "bw6-761" => 8 * 189
  | _ => 0

/-- parts of a composite kind, whether line coefficients follow, whether the two slices must have equal lengths -/
def compKind (kind : String) : Option (List Part × Bool × Bool) :=
  match kind with
  | "srs" => some ([⟨true, [.g1s]⟩, ⟨true, [.g2, .g2, .g1]⟩], true, false)
  | "srsu" => some ([⟨false, [.g1s]⟩, ⟨true, [.g2, .g2, .g1]⟩], true, false)
  | "kpk" => some ([⟨true, [.g1s]⟩], false, false)
  | "kpku" => some ([⟨false, [.g1s]⟩], false, false)
  | "kvk" => some ([⟨true, [.g2, .g2, .g1]⟩], true, false)
  | "ppk" => some ([⟨true, [.g1s, .g1s]⟩], false, true)
  | "pvk" => some ([⟨true, [.g2, .g2]⟩], false, false)
  | "pvku" => some ([⟨false, [.g2, .g2]⟩], false, false)
  | _ => none

def mix64 (x : UInt64) : UInt64 :=
  let z := x + 0x9e3779b97f4a7c15
  let z := (z ^^^ (z >>> 30)) * 0xbf58476d1ce4e5b9
  let z := (z ^^^ (z >>> 27)) * 0x94d049bb133111eb
  z ^^^ (z >>> 31)

/-- synthetic canonical line coefficients (top word zero), the same function as `c07SynthLines` of the harness: a
short spelling of a long block inside an op line; `be`: big-endian elements (BW6), the zero word comes first -/
def synthLines (be : Bool) (limbs : Nat) (seed : UInt64) (n : Nat) : List UInt8 :=
  (List.range n).flatMap (fun i => (List.range limbs).flatMap (fun j =>
    if (if be then j == 0 else j + 1 == limbs) then List.replicate 8 0 else putBE 8 (mix64 (seed + UInt64.ofNat (i * limbs + j))).toNat))

/-- `<hex>_Z<seed>.<count>_<hex>…` -/
def parseStream (be : Bool) (limbs : Nat) (s : String) : List UInt8 :=
  ((s.splitOn "_").map (fun t =>
    if t.startsWith "Z" then
      match (t.drop 1).toString.splitOn "." with
      | [a, b] => synthLines be limbs (UInt64.ofNat (parseHexD a)) (parseHexD b)
      | _ => []
    else parseBytes t)).flatten

/-- ReadFrom of a composite kind: values, line bytes, error text, bytes consumed -/
def compRead (E : Env α β) (kind : String) (be : Bool) (q fb words : Nat) (bs : List UInt8) :
    Option (List (Val α β) × List UInt8 × Option String × Nat) :=
  match compKind kind with
  | none => none
  | some (ps, hasLines, eqLen) =>
    match readComposite E ps be q fb (if hasLines then words else 0) bs with
    | (vs, ls, some e, n) => some (vs, ls, some e.str, n)
    | (vs, ls, none, n) =>
      match eqLen, vs with
      | true, [.g1s a, .g1s b] => if a.length == b.length then some (vs, ls, none, n) else some (vs, ls, some "err:len", n)
      | _, _ => some (vs, ls, none, n)

def compOp (E : Env α β) (be : Bool) (q fb words : Nat) (args : List String) : String :=
  let limbs := fb / 8
  match args with
  | ["cdec", kind, _chunk, hex] =>
    -- a history `A>B…` on ONE object: by value the answer is that of the last stream
    match compRead E kind be q fb words (parseStream be limbs ((hex.splitOn ">").getLast?.getD "-")) with
    | none => "bad-op"
    | some (_, _, some e, n) => e ++ " n=" ++ toHex n ++ " c=" ++ toHex n
    | some (vs, ls, none, n) =>
      "ok n=" ++ toHex n ++ " c=" ++ toHex n ++ " re=" ++ bytesToHex (Sha256.hash (compBytes E true vs ls))
  | ["cenc", kind, raw, buds, hex] =>
    match compRead E kind be q fb words (parseStream be limbs hex) with
    | some (vs, ls, none, _) =>
      let r := compWriteTo E (raw == "1") (parse1 buds) vs ls
      let tail := "w=" ++ toHex r.1.length ++ " " ++ bytesToHex (Sha256.hash r.1)
      if r.2.1 then "err " ++ tail else "ok n=" ++ toHex r.1.length ++ " " ++ tail
    | _ => "bad-op"
  | _ => "bad-op"

/-! ## twisted-Edwards point codec (`ted`) -/

/-- `PointAffine.SetBytes` as the property demands it: a canonical ordinate (below q), an abscissa exists
(`(1−y²)/(a−d·y²)` is a square), the point is on the curve, no sign bit on `x = 0` — then and only then the string is
accepted, and it is the `Bytes` of the point it denotes (`Sig.EdParams.compress`) -/
def tedDecode (P : Sig.EdParams) (buf : List UInt8) : Except String ((Nat × Nat) × Nat) :=
  if buf.length < P.size then .error "err:short" else
  let y := P.yRaw buf
  if ¬ y < P.q then .error "err:noncanon" else
  match Sig.sqrtF P.q (P.ratio y) with
  | none => .error "err:nosqrt"
  | some _ =>
    let X := P.decompress (Sig.sqrtF P.q) buf
    if ¬ P.onCurve X then .error "err:offcurve"
    else if X.1 == 0 && P.signBit buf then .error "err:sign"
    else .ok (X, P.size)

def tedOp (P : Sig.EdParams) (args : List String) : String :=
  match args with
  | ["enc", pt] =>
    match pt.splitOn ";" with
    | [x, y] => bytesToHex (P.compress (parseHexD x, parseHexD y))
    | _ => "bad-op"
  | ["dec", hex] =>
    match tedDecode P (parseBytes hex) with
    | .error e => e
    | .ok (X, n) => "ok " ++ toHex X.1 ++ ";" ++ toHex X.2 ++ " " ++ toHex n
  | _ => "bad-op"

def layoutNum : Layout → Nat | .raw => 0 | .two => 2 | .three => 3

def paramsLine (d : CurveDesc) : String :=
  let base := "L=" ++ toString (layoutNum d.L) ++ " a=" ++ toString d.a ++ " fp=" ++ toHex d.p ++ " fr=" ++ toHex d.r ++
    " fb=" ++ toString d.fpC.bytes ++ " g1b=" ++ toHex d.b1
  match d.g2 with
  | .none => base
  | .fp => base ++ " g2nc=1 g2b=" ++ hexList d.g2b
  | .e2 => base ++ " g2nc=2 g2b=" ++ hexList d.g2b ++ String.join (d.nr.map (fun n => " nr=" ++ hexList n))
  | .e4 => base ++ " g2nc=4 g2b=" ++ hexList d.g2b ++ String.join (d.nr.map (fun n => " nr=" ++ hexList n))

def mkEnv (d : CurveDesc) (C2 : Codec β) : Env Nat β :=
  { frQ := d.r, frB := d.frC.bytes, fpQ := d.p, fpB := d.fpC.bytes, C1 := d.codec1, C2 := C2 }

/-- `C07 <op> <curve> …` -/
def handle (args : List String) : String :=
  match args with
  | "ted" :: inst :: rest =>
    match SigParams.edCurves.find? (·.name == inst) with
    | none => "bad-op"
    | some P => tedOp P rest
  | op :: cname :: rest =>
    match curves.find? (·.name == cname) with
    | none => "bad-op"
    | some d =>
      if op == "params" then paramsLine d
      else if op == "enc" || op == "dec" || op == "insub" then
        match rest with
        | "G1" :: more => groupOp d.codec1 (op :: more)
        | "G2" :: more =>
          match d.g2 with
          | .none => "bad-op"
          | .fp => groupOp d.codecFp2 (op :: more)
          | .e2 => groupOp d.codecE2 (op :: more)
          | .e4 => groupOp d.codecE4 (op :: more)
        | _ => "bad-op"
      else if !d.stream then "bad-op"
      else if op == "cdec" || op == "cenc" then
        let w := linesWords d.name
        if w == 0 then "bad-op" else
        match d.g2 with
        | .none => "bad-op"
        | .fp => compOp (mkEnv d d.codecFp2) true d.p d.fpC.bytes w (op :: rest)
        | .e2 => compOp (mkEnv d d.codecE2) false d.p d.fpC.bytes w (op :: rest)
        | .e4 => compOp (mkEnv d d.codecE4) false d.p d.fpC.bytes w (op :: rest)
      else
        match d.g2 with
        | .none => streamOp (mkEnv d d.codec1) false d.full (op :: rest)
        | .fp => streamOp (mkEnv d d.codecFp2) true d.full (op :: rest)
        | .e2 => streamOp (mkEnv d d.codecE2) true d.full (op :: rest)
        | .e4 => streamOp (mkEnv d d.codecE4) true d.full (op :: rest)
  | _ => "bad-op"

end GV.PointCodec
