import GnarkVerif.Model.Sig
/-
C12 — object histories (ops `EDSCR` / `ECSCR`): a script over a store of private keys, public keys, byte buffers and hashers,
interpreted with VALUE SEMANTICS.

* Every slot holds a value. `Public()`, the `PublicKey` field, struct copies, `Bytes()` and `SetBytes(buf)` produce / consume
  independent values: a step changes the slot it names as its destination and nothing else (`Props/C12.lean`:
  `C12_script_pk_write_frame`, `C12_script_sk_write_frame`, `C12_script_scribble_frame`).
* A hasher slot carries its KIND only. What it has absorbed is not part of the state: `Sign` / `Verify` hash exactly the bytes the
  scheme specifies (`Scheme.sign`, `Scheme.verify` sget the hash function of that kind, never a history) —
  `C12_script_hasher_history_irrelevant`.
* After a refused `SetBytes` the destination holds nothing specified (`none`); reading it answers `unspec` (the generator never does).
  `RecoverFrom` documents "leaves the current public key unchanged" on error, and the model does that.

The scheme (EdDSA / ECDSA instance) is a parameter; `Model/SigOps.lean` instantiates it.
-/
namespace GV.SigScript
open GV GV.Sig

structure Scheme where
  SK : Type
  PK : Type
  skParse : Bytes → Except Err (Nat × SK)
  skBytes : SK → Bytes
  pub : SK → PK
  pkParse : Bytes → Except Err (Nat × PK)
  pkBytes : PK → Bytes
  /-- hasher kind, recorded oracle input / output ↦ the hash function handed to Sign / Verify (`none`: unknown kind) -/
  hash : String → String → String → Option (Option HashFn)
  /-- `Sign(msg, h)` with the nonce token of the line -/
  sign : Option HashFn → SK → String → Bytes → Except Err Bytes
  /-- `SignForRecover(msg, h)`: `v:r:s` -/
  signRec : Option HashFn → SK → String → Bytes → Except Err String
  verify : Option HashFn → PK → Bytes → Bytes → Except Err Bool
  recover : Bytes → Nat → Int → Int → Except Err PK

abbrev Slots (α : Type) := List (String × α)

def sget {α : Type} (s : Slots α) (n : String) : Option α := (s.find? (fun e => e.1 == n)).map (·.2)
def sput {α : Type} (s : Slots α) (n : String) (v : α) : Slots α := (n, v) :: s.filter (fun e => e.1 != n)

structure State (S : Scheme) where
  sks : Slots (Option S.SK) := []
  pks : Slots (Option S.PK) := []
  bufs : Slots Bytes := []
  /-- hasher slot ↦ kind (`sha256` | `mimc`); the absorbed data is deliberately NOT part of the state -/
  hs : Slots String := []

variable {S : Scheme}

def bad (st : State S) : State S × String := (st, "bad-step")

def flipAll (b : Bytes) : Bytes := b.map (· ^^^ 0xa5)

/-! ### buffers -/

def stBN (st : State S) (b hex : String) : State S × String := ({ st with bufs := sput st.bufs b (parseBytes hex) }, "-")

def stBX (st : State S) (b : String) : State S × String :=
  match sget st.bufs b with
  | none => bad st
  | some v => ({ st with bufs := sput st.bufs b (flipAll v) }, "-")

def stBC (st : State S) (b b2 : String) : State S × String :=
  match sget st.bufs b2 with
  | none => bad st
  | some v => ({ st with bufs := sput st.bufs b v }, "-")

/-! ### hashers -/

def stHN (st : State S) (h kind : String) : State S × String :=
  if kind == "sha256" || kind == "mimc" then ({ st with hs := sput st.hs h kind }, "-") else bad st

/-- `h.Write(buf)`: no effect on anything the scheme computes later -/
def stHW (st : State S) (h b : String) : State S × String :=
  match sget st.hs h, sget st.bufs b with
  | some _, some _ => (st, "-")
  | _, _ => bad st

def stHS (st : State S) (h : String) : State S × String :=
  match sget st.hs h with
  | some _ => (st, "-")
  | none => bad st

/-- the hash function of a Sign / Verify step: by the KIND of the hasher slot (or `nil` / `const`) -/
def hasher (st : State S) (h oin oout : String) : Option (Option HashFn) :=
  if h == "nil" || h == "const" then S.hash h oin oout
  else match sget st.hs h with
    | some kind => S.hash kind oin oout
    | none => none

/-! ### keys -/

def stKS (st : State S) (i b : String) : State S × String :=
  match sget st.bufs b with
  | none => bad st
  | some v =>
    match S.skParse v with
    | .error e => ({ st with sks := sput st.sks i none }, e.str)
    | .ok (n, k) => ({ st with sks := sput st.sks i (some k) }, toString n)

def stKC (st : State S) (i i2 : String) : State S × String :=
  match sget st.sks i2 with
  | none => bad st
  | some v => ({ st with sks := sput st.sks i v }, "-")

/-- `Public()` and the copy of the field `PublicKey`: the value of the public key -/
def stKP (st : State S) (j i : String) : State S × String :=
  match sget st.sks i with
  | none => bad st
  | some v => ({ st with pks := sput st.pks j (v.map S.pub) }, "-")

def stPC (st : State S) (j j2 : String) : State S × String :=
  match sget st.pks j2 with
  | none => bad st
  | some v => ({ st with pks := sput st.pks j v }, "-")

def stKB (st : State S) (b i : String) : State S × String :=
  match sget st.sks i with
  | none => bad st
  | some none => (st, "unspec")
  | some (some k) => let v := S.skBytes k; ({ st with bufs := sput st.bufs b v }, bytesToHex v)

def stPB (st : State S) (b j : String) : State S × String :=
  match sget st.pks j with
  | none => bad st
  | some none => (st, "unspec")
  | some (some p) => let v := S.pkBytes p; ({ st with bufs := sput st.bufs b v }, bytesToHex v)

def stPS (st : State S) (j b : String) : State S × String :=
  match sget st.bufs b with
  | none => bad st
  | some v =>
    match S.pkParse v with
    | .error e => ({ st with pks := sput st.pks j none }, e.str)
    | .ok (n, p) => ({ st with pks := sput st.pks j (some p) }, toString n)

def stEQ (st : State S) (j j2 : String) : State S × String :=
  match sget st.pks j, sget st.pks j2 with
  | some (some p), some (some p2) => (st, boolStr (S.pkBytes p == S.pkBytes p2))
  | some _, some _ => (st, "unspec")
  | _, _ => bad st

/-! ### sign / verify / recover -/

def stSG (st : State S) (b i h nonce bm oin oout : String) : State S × String :=
  match sget st.sks i, sget st.bufs bm, hasher st h oin oout with
  | some (some k), some m, some H =>
    match S.sign H k nonce m with
    | .error e => (st, e.str)
    | .ok sig => ({ st with bufs := sput st.bufs b sig }, bytesToHex sig)
  | some none, some _, some _ => (st, "unspec")
  | _, _, _ => bad st

def stSR (st : State S) (i h nonce bm oin oout : String) : State S × String :=
  match sget st.sks i, sget st.bufs bm, hasher st h oin oout with
  | some (some k), some m, some H =>
    match S.signRec H k nonce m with
    | .error e => (st, e.str)
    | .ok r => (st, r)
  | some none, some _, some _ => (st, "unspec")
  | _, _, _ => bad st

def stVF (st : State S) (j bs bm h oin oout : String) : State S × String :=
  match sget st.pks j, sget st.bufs bs, sget st.bufs bm, hasher st h oin oout with
  | some (some p), some sig, some m, some H =>
    match S.verify H p sig m with
    | .error e => (st, e.str)
    | .ok v => (st, boolStr v)
  | some none, some _, some _, some _ => (st, "unspec")
  | _, _, _, _ => bad st

/-- `p_j.RecoverFrom(d, v, r, s)`; on error the object is left as it was (an absent one is created holding nothing specified) -/
def stRC (st : State S) (j bd v r s : String) : State S × String :=
  match sget st.bufs bd with
  | none => bad st
  | some d =>
    match S.recover d (parseHexD v) (parseInt r) (parseInt s) with
    | .error e => ((match sget st.pks j with | some _ => st | none => { st with pks := sput st.pks j none }), e.str)
    | .ok p => ({ st with pks := sput st.pks j (some p) }, "ok")

def step (st : State S) (f : List String) : State S × String :=
  match f with
  | ["bn", b, x] => stBN st b x
  | ["bx", b] => stBX st b
  | ["bc", b, b2] => stBC st b b2
  | ["hn", h, k] => stHN st h k
  | ["hw", h, b] => stHW st h b
  | ["hs", h] => stHS st h
  | ["ks", i, b] => stKS st i b
  | ["kc", i, i2] => stKC st i i2
  | ["kp", j, i] => stKP st j i
  | ["kf", j, i] => stKP st j i
  | ["pc", j, j2] => stPC st j j2
  | ["kb", b, i] => stKB st b i
  | ["pb", b, j] => stPB st b j
  | ["ps", j, b] => stPS st j b
  | ["eq", j, j2] => stEQ st j j2
  | ["sg", b, i, h, nonce, bm, oin, oout] => stSG st b i h nonce bm oin oout
  | ["sr", i, h, nonce, bm, oin, oout] => stSR st i h nonce bm oin oout
  | ["vf", j, bs, bm, h, oin, oout] => stVF st j bs bm h oin oout
  | ["rc", j, bd, v, r, s] => stRC st j bd v r s
  | _ => bad st

def runAux : State S → List String → List String → List String
  | _, [], acc => acc.reverse
  | st, s :: rest, acc => let (st', o) := step st (s.splitOn ","); runAux st' rest (o :: acc)

def run (S : Scheme) (steps : List String) : String := " ".intercalate (runAux ({} : State S) steps [])

end GV.SigScript
