/-
C18 — a tiny EFFECT LANGUAGE for the regenerated write-effect summary of the exported API (tools/goeff → Gen/Effects.lean).

* `Root`   : what a function may name: a parameter root `.p i` (i = 2k: the memory directly pointed to by parameter k, receiver = 0;
             i = 2k+1: everything reachable from it by at least one load) or a package-level variable `.g i`.
* `Atom`   : `write r` (some cell of root r may change arbitrarily) or `call f am` (run the body of function `f` with its parameter
             root j bound to the caller roots `am j`; globals are bound to themselves).
* `Fn`     : one function of the table: id, name, arity, parameter names, exported flag, allowed destinations (from
             tools/goeff/expect.txt), body = SET of atoms (flow-insensitive: any atom, any number of times, in any order).
* `Exec`   : the semantics. The state maps cells to values; an environment maps the roots of the current activation to the cells
             they may denote; `write r` havocs cells of `env r`; `call` runs the callee under the environment bound through the
             argument map, one unit of FUEL per call depth.
* `closeRounds` : the closure (per function the list of roots it may write, transitively), computed by iteration over the table;
             summaries are kept in a binary trie so that the kernel can evaluate the iteration on tables of 10^4 functions.
* `closedB`, `policyB`, `violators` : the decidable checks evaluated on the regenerated tables.

Only Lean core is imported.
-/
namespace GV.Eff

inductive Root where
  | p (i : Nat)
  | g (i : Nat)
deriving DecidableEq, Repr

inductive Atom where
  | write (r : Root)
  | call (f : Nat) (am : List (Nat × List Root))
deriving Repr

structure Fn where
  id : Nat
  name : String
  arity : Nat
  params : List String
  exported : Bool
  allowed : List Root
  body : List Atom
deriving Repr

/-! ### semantics -/

abbrev Cell := Nat
abbrev Val := Nat
abbrev State := Cell → Val
/-- which cells a root of the current activation may denote -/
abbrev Env := Root → List Cell

/-- the caller roots bound to parameter root `j` of the callee -/
def amLookup : List (Nat × List Root) → Nat → List Root
  | [], _ => []
  | (k, rs) :: rest, j => if k = j then rs ++ amLookup rest j else amLookup rest j

/-- caller roots that a callee root stands for: parameters through the argument map, globals are themselves -/
def bindRoots (am : List (Nat × List Root)) : Root → List Root
  | .p j => amLookup am j
  | .g i => [.g i]

/-- environment of the callee -/
def bindEnv (env : Env) (am : List (Nat × List Root)) : Env :=
  fun r => (bindRoots am r).flatMap env

/-- `Exec T n env body σ σ'` : some execution of a function with atom set `body`, call depth at most `n`, leads from σ to σ'.
`T f` is the body of function `f` (none: no such function, the call has no behaviour). -/
inductive Exec (T : Nat → Option (List Atom)) : Nat → Env → List Atom → State → State → Prop
  | done (n : Nat) (env : Env) (body : List Atom) (σ : State) : Exec T n env body σ σ
  | write (n : Nat) (env : Env) (body : List Atom) (r : Root) (σ σ₁ σ₂ : State)
      (hm : Atom.write r ∈ body) (hw : ∀ c, c ∉ env r → σ₁ c = σ c)
      (hrest : Exec T n env body σ₁ σ₂) : Exec T n env body σ σ₂
  | call (n : Nat) (env : Env) (body : List Atom) (f : Nat) (am : List (Nat × List Root)) (b : List Atom) (σ σ₁ σ₂ : State)
      (hm : Atom.call f am ∈ body) (hT : T f = some b)
      (hcallee : Exec T n (bindEnv env am) b σ σ₁)
      (hrest : Exec T (n+1) env body σ₁ σ₂) : Exec T (n+1) env body σ σ₂

/-- the table as a function from ids to bodies -/
def tableOf (fns : List Fn) : Nat → Option (List Atom) :=
  fun f => (fns.find? (fun fn => fn.id == f)).map (·.body)

/-! ### summaries: a binary trie keyed by function id -/

inductive Trie where
  | leaf
  | node (v : List Root) (l r : Trie)

/-- key 0 is the node itself; key k+1 goes left when k is even, right when odd, with key k/2 -/
def Trie.find : Trie → Nat → List Root
  | .leaf, _ => []
  | .node v l r, k =>
    if k = 0 then v else
      let k' := k - 1
      if k' % 2 = 0 then l.find (k' / 2) else r.find (k' / 2)

/-- replace the entry of key `k` (64 levels are enough for every id < 2^64) -/
def Trie.setAux : Nat → Trie → Nat → List Root → Trie
  | 0, t, _, _ => t
  | d+1, t, k, v =>
    match t with
    | .leaf =>
      if k = 0 then .node v .leaf .leaf else
        let k' := k - 1
        if k' % 2 = 0 then .node [] (Trie.setAux d .leaf (k' / 2) v) .leaf else .node [] .leaf (Trie.setAux d .leaf (k' / 2) v)
    | .node w l r =>
      if k = 0 then .node v l r else
        let k' := k - 1
        if k' % 2 = 0 then .node w (Trie.setAux d l (k' / 2) v) r else .node w l (Trie.setAux d r (k' / 2) v)

def Trie.set (t : Trie) (k : Nat) (v : List Root) : Trie := Trie.setAux 64 t k v

/-! ### closure by iteration -/

def insertRoot (r : Root) (s : List Root) : List Root := if s.contains r then s else r :: s
def unionRoots (a s : List Root) : List Root := a.foldl (fun acc r => insertRoot r acc) s

/-- the roots that one atom contributes to its function, given the current summaries -/
def atomRoots (S : Nat → List Root) : Atom → List Root
  | .write r => [r]
  | .call f am => (S f).flatMap (bindRoots am)

/-- one pass over the table (in list order; the tool emits callees first) -/
def closeStep (fns : List Fn) (t : Trie) : Trie :=
  fns.foldl (fun t fn => t.set fn.id (fn.body.foldl (fun acc a => unionRoots (atomRoots t.find a) acc) (t.find fn.id))) t

def closeRounds : Nat → List Fn → Trie → Trie
  | 0, _, t => t
  | n+1, fns, t => closeRounds n fns (closeStep fns t)

/-- the closed write summary of the table after `n` rounds -/
def closure (fns : List Fn) (n : Nat) : Nat → List Root := (closeRounds n fns .leaf).find

/-! ### decidable checks -/

/-- every atom of the body is accounted for in `W`, given the summaries `S` -/
def bodyOKB (S : Nat → List Root) (W : List Root) (body : List Atom) : Bool :=
  body.all (fun a => (atomRoots S a).all (fun r => W.contains r))

/-- `S` is closed under the table: nothing more can be derived -/
def closedB (fns : List Fn) (S : Nat → List Root) : Bool :=
  fns.all (fun fn => bodyOKB S (S fn.id) fn.body)

/-- the policy: the closed write set of every exported function lies inside its allowed destinations -/
def policyB (fns : List Fn) (S : Nat → List Root) : Bool :=
  fns.all (fun fn => !fn.exported || (S fn.id).all (fun r => fn.allowed.contains r))

/-- names of the exported functions that break the policy, with the offending roots (diagnostics) -/
def violators (fns : List Fn) (S : Nat → List Root) : List (String × List Root) :=
  fns.filterMap (fun fn =>
    if fn.exported then
      let bad := (S fn.id).filter (fun r => !fn.allowed.contains r)
      if bad.isEmpty then none else some (fn.name, bad)
    else none)

/-- ids are the positions in the table (so `tableOf` finds the function the tool meant) -/
def idsOKB (fns : List Fn) : Bool := (fns.map (·.id)) == List.range fns.length

end GV.Eff
