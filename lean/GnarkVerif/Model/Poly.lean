import GnarkVerif.Model.Util
import GnarkVerif.Model.FFT
/-
C20 — executable model of the polynomial objects of
  /repo/ecc/<curve>/fr/iop/{polynomial.go, expressions.go, quotient.go, ratios.go, utils.go}
  /repo/ecc/<curve>/fr/polynomial/{polynomial.go, multilin.go}
(7 scalar fields; template /repo/internal/generator/iop/template).

Everything is defined over a type `R` with `+ - * 0 1` (core classes only) and an explicit inversion function
`inv : R → R` (`inv 0 = 0`, gnark's convention), so that the same definitions are run by the driver on `ZM q`
(FFT.lean) and reasoned about over a Mathlib field in Props/C20.lean. The FFT calls are the C10 model.

The model follows the PROPERTY where the Go code does not (each such place is marked FINDING):
  * `Evaluate` multiplies the argument by `ω^shift` for EVERY integer shift (Go: only 0..5 are right),
  * Lagrange-form `Evaluate` returns the stored value at a domain point (Go: 0),
  * `GetCoeff` reduces the index with the mathematical `mod` (Go: truncated `%`, panics for negative shifts),
  * `WriteTo/ReadFrom` round-trips the (signed) shift (Go: negative shifts come back as 2^32 - |s|),
  * `EvalEq [] [] = 1` (Go: 0).
`evaluateGo` keeps the literal Go behaviour of `Evaluate` for reference (Props/C20 relates the two).
-/
namespace GV.Poly
open GV.FFT

inductive Basis | canonical | lagrange | lagrangeCoset
deriving DecidableEq, Repr

/-- `iop.Polynomial`: coefficient vector, `Form` = (basis, layout), `shift`, `size`, `coset` -/
structure Poly (R : Type) where
  coeffs : List R
  basis : Basis
  bitrev : Bool        -- layout: `true` = BitReverse
  shift : Int
  size : Nat
  coset : R

/-- one call `d.FFT(…, dec[, OnCoset])` / `d.FFTInverse(…)` -/
structure Call where
  inverse : Bool
  dif : Bool
  coset : Bool
deriving DecidableEq, Repr

/-- The dispatch table of `ToLagrange` / `ToCanonical` / `ToLagrangeCoset` as data:
    target basis ↦ current (basis, layout) ↦ (FFT calls in order, new layout); `none` = "return p" (after `grow`). -/
def dispatch : Basis → Basis → Bool → Option (List Call × Bool)
  -- ToLagrange (polynomial.go:287)
  | .lagrange, .canonical, false => some ([⟨false, true, false⟩], true)
  | .lagrange, .canonical, true => some ([⟨false, false, false⟩], false)
  | .lagrange, .lagrange, _ => none
  | .lagrange, .lagrangeCoset, false => some ([⟨true, true, true⟩, ⟨false, false, false⟩], false)
  | .lagrange, .lagrangeCoset, true => some ([⟨true, false, true⟩, ⟨false, true, false⟩], true)
  -- ToCanonical (polynomial.go:322)
  | .canonical, .canonical, _ => none
  | .canonical, .lagrange, false => some ([⟨true, true, false⟩], true)
  | .canonical, .lagrange, true => some ([⟨true, false, false⟩], false)
  | .canonical, .lagrangeCoset, false => some ([⟨true, true, true⟩], true)
  | .canonical, .lagrangeCoset, true => some ([⟨true, false, true⟩], false)
  -- ToLagrangeCoset (polynomial.go:359)
  | .lagrangeCoset, .canonical, false => some ([⟨false, true, true⟩], true)
  | .lagrangeCoset, .canonical, true => some ([⟨false, false, true⟩], false)
  | .lagrangeCoset, .lagrange, false => some ([⟨true, true, false⟩, ⟨false, false, true⟩], false)
  | .lagrangeCoset, .lagrange, true => some ([⟨true, false, false⟩, ⟨false, true, true⟩], true)
  | .lagrangeCoset, .lagrangeCoset, _ => none

section Alg
variable {R : Type} [Add R] [Sub R] [Mul R] [Zero R] [One R]

/-- `polynomial.grow` -/
def grow (n : Nat) (c : List R) : List R := c ++ List.replicate (n - c.length) 0

def applyCall (kers : List Nat) (d : Domain R) (c : List R) (k : Call) : List R :=
  if k.inverse then FFTInverse kers d k.dif k.coset c else FFT kers d k.dif k.coset c

/-- `p.ToLagrange(d)`, `p.ToCanonical(d)`, `p.ToLagrangeCoset(d)` (`target` selects which) -/
def convert (kers : List Nat) (target : Basis) (d : Domain R) (p : Poly R) : Poly R :=
  let c := grow (2^d.m) p.coeffs
  -- ToLagrangeCoset stores `cosetTable[1] = FrMultiplicativeGen` before the switch
  let cs := if target = .lagrangeCoset then d.g else p.coset
  match dispatch target p.basis p.bitrev with
  | none => { p with coeffs := c, coset := cs }
  | some (calls, lay) =>
    { p with coeffs := calls.foldl (applyCall kers d) c, basis := target, bitrev := lay, coset := cs }

def toLagrange (kers : List Nat) (d : Domain R) (p : Poly R) : Poly R := convert kers .lagrange d p
def toCanonical (kers : List Nat) (d : Domain R) (p : Poly R) : Poly R := convert kers .canonical d p
def toLagrangeCoset (kers : List Nat) (d : Domain R) (p : Poly R) : Poly R := convert kers .lagrangeCoset d p

/-- `fft.BitReverse` on the coefficient vector (`len = 2^m`) -/
def flip (p : Poly R) : List R := bitReverse p.coeffs.length.log2 p.coeffs

def toRegular (p : Poly R) : Poly R := if p.bitrev then { p with coeffs := flip p, bitrev := false } else p
def toBitReverse (p : Poly R) : Poly R := if p.bitrev then p else { p with coeffs := flip p, bitrev := true }

/-- the coefficient vector read in natural order (what the loops `coefficients[iRev]` read) -/
def regular (p : Poly R) : List R := if p.bitrev then flip p else p.coeffs

/-! ### conversions as the PROPERTY demands them (what the driver runs)

`convert` above is the literal dispatch (tied to the Go source by Props/C20_gen). Two places of it are only right under
the precondition `Denotes` (stored length = cardinality, coset = the domain's shift):
  * `grow` appends the zeroes at the END of the stored vector. For a Canonical object in BitReverse layout that is shorter
    than the domain this is not the bit-reversed layout of the padded polynomial (`growP`: pad in natural order);
  * the coset shift is overwritten before the `return p` of an object that is already in LagrangeCoset form, although
    its stored values are left alone (`convertP`: the shift is only recorded when the object has none yet, i.e. it was
    created directly in LagrangeCoset form by `NewPolynomial`).
`C20_convertP_agrees` (Props/C20): under `Denotes` both coincide. Spare capacity of the coefficient slice is not part of
the object: nothing here can depend on it. -/

/-- zero-padding to length `n` in the layout of the object -/
def growP (n : Nat) (p : Poly R) : List R :=
  if p.bitrev then bitReverse n.log2 (grow n (flip p)) else grow n p.coeffs

/-- `ToLagrange` / `ToCanonical` / `ToLagrangeCoset` as the property demands -/
def convertP [DecidableEq R] (kers : List Nat) (target : Basis) (d : Domain R) (p : Poly R) : Poly R :=
  let r := convert kers target d { p with coeffs := growP (2^d.m) p }
  match dispatch target p.basis p.bitrev with
  | none => { r with coset := if target = .lagrangeCoset ∧ p.coset = 0 then d.g else p.coset }
  | some _ => r

/-! ### Evaluate -/

/-- Horner: `r = r*x + c[i]` for `i = n-1 … 0` -/
def horner (c : List R) (x : R) : R := c.foldr (fun a r => r * x + a) 0

/-- `n` as a ring element (`SetUint64`) -/
def natR : Nat → R
  | 0 => 0
  | n+1 => natR n + 1

/-- the loop of `evalLagrange`: `li ← li·invdens[i]; r += li·c[i]; li ← li·dens[i]·ω` -/
def lagLoop (w : R) : List R → List R → List R → R → R → R
  | c :: cs, d :: ds, e :: es, li, r => lagLoop w cs ds es (li * e * d * w) (r + li * e * c)
  | _, _, _, _, r => r

/-- `evalLagrange` literally: `vals` = values on `1, ω, ω², …` in natural order, `BatchInvert` leaves zeros -/
def evalLagrangeGo (inv : R → R) (binv : List R → List R) (w : R) (vals : List R) (x : R) : R :=
  let n := vals.length
  let dens := (powers w n).map (fun a => x - a)
  let invdens := binv dens
  let li := inv (natR n) * (pw x n - 1)
  lagLoop w vals dens invdens li 0

/-- first index `i` with `x = ωⁱ`, if any -/
def domainIndex [DecidableEq R] (ws : List R) (x : R) : Option Nat :=
  let i := ws.findIdx (fun a => decide (a = x))
  if i < ws.length then some i else none

/-- Lagrange evaluation as the property demands: at a domain point the stored value, elsewhere the barycentric sum.
    FINDING: the Go code returns 0 at every domain point (`xⁿ-1 = 0` kills `li`, and `0⁻¹ = 0`). -/
def evalLagrange [DecidableEq R] (inv : R → R) (binv : List R → List R) (w : R) (vals : List R) (x : R) : R :=
  match domainIndex (powers w vals.length) x with
  | some i => vals.getD i 0
  | none => evalLagrangeGo inv binv w vals x

/-- environment: inversion, `fr.BatchInvert` (= `List.map inv`, C01_batchInv; the driver runs Montgomery's trick)
    and `fft.Generator(m)` (generator of the subgroup of order `nextPow2 m`) with its inverse -/
structure Env (R : Type) where
  inv : R → R
  binv : List R → List R
  genOf : Nat → R
  genInvOf : Nat → R

/-- `w^s` for an integer `s` -/
def zpw (w wInv : R) (s : Int) : R := if 0 ≤ s then pw w s.toNat else pw wInv (-s).toNat

/-- `polynomial.evaluate` -/
def evalCore [DecidableEq R] (env : Env R) (p : Poly R) (x : R) : R :=
  if p.basis = .canonical then horner (regular p) x
  else evalLagrange env.inv env.binv (env.genOf p.coeffs.length) (regular p) x

/-- `Polynomial.Evaluate` as the property demands: the argument is divided by the coset shift in LagrangeCoset
    basis and multiplied by `ω_size^shift` for every integer shift. -/
def evaluate [DecidableEq R] (env : Env R) (p : Poly R) (x : R) : R :=
  let x1 := if p.basis = .lagrangeCoset then x * env.inv p.coset else x
  let x2 := if p.shift = 0 then x1 else x1 * zpw (env.genOf p.size) (env.genInvOf p.size) p.shift
  evalCore env p x2

/-- `smallExp` -/
def smallExp (x : R) (n : Int) : R :=
  if n = 0 then 1 else if n = 1 then x else if n = 2 then x*x else if n = 3 then x*x*x
  else if n = 4 then (x*x)*(x*x) else if n = 5 then (x*x)*(x*x)*x else 0

/-- `Polynomial.Evaluate` literally (polynomial.go:106-132): `shift ≤ 5` goes through `smallExp` (0 for negative
    shifts), `shift > 5` computes `g.Exp(g, shift)` on the zero-initialised `g`, i.e. 0 — and the Lagrange formula
    is used at domain points too. -/
def evaluateGo (env : Env R) (p : Poly R) (x : R) : R :=
  let x1 := if p.basis = .lagrangeCoset then x * env.inv p.coset else x
  let x2 := if p.shift = 0 then x1
    else if p.shift ≤ 5 then x1 * smallExp (env.genOf p.size) p.shift
    else x1 * pw (0 : R) p.shift.toNat
  if p.basis = .canonical then horner (regular p) x2
  else evalLagrangeGo env.inv env.binv (env.genOf p.coeffs.length) (regular p) x2

/-! ### GetCoeff, Clone, SetSize, Shift -/

/-- `GetCoeff(i)`: entry `(i + ρ·shift) mod n` in natural order, `ρ = n / size`.
    FINDING: Go uses the truncated `%`, so a negative `i + ρ·shift` indexes out of range (panic). -/
def getCoeff (p : Poly R) (i : Nat) : R :=
  let n := p.coeffs.length
  let rho := n / p.size
  let j := (((i : Int) + (rho : Int) * p.shift) % (n : Int)).toNat
  if p.bitrev then p.coeffs.getD (bitrev n.log2 j) 0 else p.coeffs.getD j 0

def clone (p : Poly R) : Poly R := p
def shallowClone (p : Poly R) : Poly R := p
def setSize (p : Poly R) (s : Nat) : Poly R := { p with size := s }
def setShift (p : Poly R) (s : Int) : Poly R := { p with shift := s }

/-- `NewPolynomial(coeffs, form)` : shift 0, size = len, coset = 0 (unset) -/
def newPoly (c : List R) (b : Basis) (br : Bool) : Poly R := ⟨c, b, br, 0, c.length, 0⟩

/-! ### iop.Evaluate (expressions), DivideByXMinusOne, ratio builders -/

/-- `iop.Evaluate(f, r, form, x…)`: `res[idx i] = f(i, x₀.GetCoeff(i), …)`; size of `x₀`, shift 0.
    Since bit reversal is an involution, "write at `idx i`" = bit-reverse the natural-order vector. -/
def exprEval (f : Nat → List R → R) (b : Basis) (br : Bool) (xs : List (Poly R)) : Option (Poly R) :=
  match xs with
  | [] => none
  | x0 :: _ =>
    let n := x0.coeffs.length
    if xs.any (fun x => x.coeffs.length != n) then none else
    let nat := (List.range n).map (fun i => f i (xs.map (fun x => getCoeff x i)))
    let c := if br then bitReverse n.log2 nat else nat
    some ⟨c, b, br, 0, x0.size, 0⟩

/-- `evaluateXnMinusOneDomainBigCoset` after `BatchInvert`: `1/(g^{n₀}·t^i − 1)`, `t = ω₁^{n₀}`, `i < n₁/n₀` -/
def xnMinusOneInv (inv : R → R) (d0 d1 : Domain R) : List R :=
  let ratio := 2^d1.m / 2^d0.m
  let t := pw d1.gen (2^d0.m)
  (iter t (pw d1.g (2^d0.m)) ratio).map (fun v => inv (v - 1))

/-- **when the division is defined**: `X^{n₀} − 1` has no zero on the coset `g·⟨ω₁⟩` of the big domain. The values of
    `x^{n₀}` on the coset are the `ρ = n₁/n₀` numbers `g^{n₀}·tⁱ`, the `ρ`-th roots of `g^{n₁}`; one of them is 1 exactly
    when `g^{n₁} = 1` (Props/C20: `C20_division_defined`, `C20_division_undefined`; for ratio 1 the single value IS
    `g^{n₁}`). With the default shift (a generator of the whole multiplicative group, of order `q − 1 > n₁`) the division
    is always defined; `fft.WithShift` can choose a shift for which it is not. -/
def divisionDefined [DecidableEq R] (d1 : Domain R) : Bool := decide (pw d1.g (2^d1.m) ≠ 1)

/-- `DivideByXMinusOne(a, [d0, d1])`; `none` = `ErrMustBeLagrangeCoset` -/
def divideByXMinusOne (kers : List Nat) (inv : R → R) (d0 d1 : Domain R) (a : Poly R) : Option (Poly R) :=
  if a.basis ≠ .lagrangeCoset then none else
  let n := a.coeffs.length
  let rho := n / a.size
  let tab := xnMinusOneInv inv d0 d1
  let nat := (List.range n).map (fun i => getCoeff a i * tab.getD (i % rho) 0)
  let res : Poly R := ⟨bitReverse n.log2 nat, .lagrangeCoset, true, 0, a.size, 0⟩
  some (toCanonical kers d1 res)

/-- running products `[1, b₀, b₀b₁, …]` (n entries from n-1 factors) -/
def runProd : R → List R → List R
  | acc, [] => [acc]
  | acc, b :: bs => acc :: runProd (acc * b) bs

/-- the grand product of both builders: `Z[i] = (∏_{k<i} nₖ)·(∏_{k<i} dₖ)⁻¹` (running products, then `BatchInvert`;
    `Z[0]` is not multiplied by `t[0]⁻¹`, both are 1) -/
def grandProduct (inv : R → R) (ns ds : List R) : List R :=
  List.zipWith (fun c t => c * inv t) (runProd 1 ns) (runProd 1 ds)

/-- `l[r.1 : r.2]` -/
def slice (l : List R) (r : Nat × Nat) : List R := (l.drop r.1).take (r.2 - r.1)

/-- the last loop of `BuildRatioCopyConstraint` for ANY list of ranges handed to the work function (ratios.go:230):
    `work(start, end)`: `tInv := BatchInvert(t[start:end]); for i in start..end: coeffs[i] *= tInv[i-start]`;
    the chunks' results in order of the ranges -/
def chunkedDiv (binv : List R → List R) (ranges : List (Nat × Nat)) (cs ts : List R) : List R :=
  ranges.flatMap (fun r => List.zipWith (· * ·) (slice cs r) (binv (slice ts r)))

/-- the grand product as `BuildRatioCopyConstraint` computes it: running products, entry 0 left alone
    (`start++; end++`), entries `1 … n-1` divided chunk by chunk over `ranges` (a partition of `[0, n-1)`) -/
def grandProductChunked (binv : List R → List R) (ranges : List (Nat × Nat)) (ns ds : List R) : List R :=
  let cs := runProd 1 ns
  let ts := runProd 1 ds
  cs.take 1 ++ chunkedDiv binv ranges (cs.drop 1) (ts.drop 1)

/-- `putInExpectedFormFromLagrangeRegular` -/
def putInExpectedForm (kers : List Nat) (d : Domain R) (c : List R) (b : Basis) (br : Bool) (size : Nat) : Poly R :=
  match b with
  | .canonical =>
    let c1 := FFTInverse kers d true false c
    ⟨if br then c1 else bitReverse d.m c1, b, br, 0, size, 0⟩
  | .lagrangeCoset =>
    let c1 := FFT kers d false true (FFTInverse kers d true false c)
    ⟨if br then bitReverse d.m c1 else c1, b, br, 0, size, 0⟩
  | .lagrange => ⟨if br then bitReverse d.m c else c, b, br, 0, size, 0⟩

/-- `BuildRatioShuffledVectors`: `Z[0] = 1`, `Z[i+1] = Z[i]·∏ⱼ(β − numⱼ(ωⁱ)) / ∏ⱼ(β − denⱼ(ωⁱ))`, computed as
    (running product of numerators)·(running product of denominators)⁻¹ -/
def ratioShuffled (kers : List Nat) (inv : R → R) (d : Domain R) (nums dens : List (Poly R)) (beta : R)
    (b : Basis) (br : Bool) : Poly R :=
  let n := 2^d.m
  let nl := nums.map (fun p => regular (toLagrange kers d p))
  let dl := dens.map (fun p => regular (toLagrange kers d p))
  let fac := fun (ls : List (List R)) (i : Nat) => ls.foldl (fun acc v => acc * (beta - v.getD i 0)) 1
  let z := grandProduct inv ((List.range (n-1)).map (fac nl)) ((List.range (n-1)).map (fac dl))
  putInExpectedForm kers d z b br n

/-- `getSupportIdentityPermutation`: `[1, ω, …, ω^{n-1}, g, gω, …, g², …]` -/
def supportId (d : Domain R) (k : Nat) : List R :=
  let n := 2^d.m
  let base := (iter d.gen 1 (k*n)).take n
  let first := iter d.gen 1 (k*n)
  if k ≤ 1 then first else
  (List.range k).flatMap (fun i => if i = 0 then base else base.map (fun v => v * pw d.g i))

/-- `BuildRatioCopyConstraint` -/
def ratioCopy (kers : List Nat) (inv : R → R) (d : Domain R) (entries : List (Poly R)) (perm : List Nat)
    (beta gamma : R) (b : Basis) (br : Bool) : Poly R :=
  let n := 2^d.m
  let el := entries.map (fun p => regular (toLagrange kers d p))
  let sid := (supportId d entries.length).toArray
  let parr := perm.toArray
  let elj := List.zip (List.range el.length) el
  let num := fun (i : Nat) => elj.foldl (fun acc jv =>
    acc * (beta * sid.getD (i + jv.1*n) 0 + gamma + jv.2.getD i 0)) 1
  let den := fun (i : Nat) => elj.foldl (fun acc jv =>
    acc * (beta * sid.getD (parr.getD (i + jv.1*n) 0) 0 + gamma + jv.2.getD i 0)) 1
  let z := grandProduct inv ((List.range (n-1)).map num) ((List.range (n-1)).map den)
  putInExpectedForm kers d z b br n

/-! ### package `polynomial` -/

/-- `Polynomial.Eval` (`none` = index panic on the empty polynomial) -/
def pEval (c : List R) (x : R) : Option R := if c.isEmpty then none else some (horner c x)

/-- coefficient-wise sum, the shorter operand padded (`Polynomial.Add`, all aliasing cases) -/
def padd : List R → List R → List R
  | [], b => b
  | a, [] => a
  | a :: as, b :: bs => (a + b) :: padd as bs

/-- `Polynomial.Sub`: `none` (nil) unless the three lengths agree -/
def psub (plen : Nat) (a b : List R) : Option (List R) :=
  if a.length ≠ b.length ∨ b.length ≠ plen then none else some (List.zipWith (· - ·) a b)

def pscale (c : R) (a : List R) : List R := a.map (fun x => c * x)

/-- `(X + c)·p` -/
def mulLin (c : R) (p : List R) : List R := padd (p.map (fun x => c * x)) (0 :: p)

/-- `∏_{i<n, i≠l} (X − i)` -/
def lagNum (n l : Nat) : List R :=
  ((List.range n).filter (· ≠ l)).foldl (fun acc i => mulLin ((0:R) - natR i) acc) [1]

/-- `computeLagrangeBasis(n)[l]`: the numerator scaled by the inverse of its value at `l` -/
def lagBasis (inv : R → R) (n l : Nat) : List R :=
  let num : List R := lagNum n l
  pscale (inv (horner num (natR l))) num

/-- `InterpolateOnRange(v)` (`none`: panic for 0 or more than 255 values) -/
def interpolateOnRange (inv : R → R) (v : List R) : Option (List R) :=
  let n := v.length
  if n = 0 ∨ n > 255 then none else
  some ((List.zip (List.range n) v).foldl (fun acc iv => padd acc (pscale iv.2 (lagBasis inv n iv.1)))
    (List.replicate n 0))

/-! ### multilinear polynomials (bookkeeping tables) -/

/-- `MultiLin.Fold(r)`: `bottom[i] += r·(top[i] − bottom[i])`, keep the bottom half; the FIRST variable is the most
    significant bit of the table index -/
def mlFold (m : List R) (r : R) : List R :=
  let mid := m.length / 2
  List.zipWith (fun b t => b + (t - b) * r) (m.take mid) (m.drop mid)

/-- `MultiLin.Evaluate(coordinates)`: fold by each coordinate in order, then entry 0 (`none` = index panic) -/
def mlEvaluate (m : List R) (coords : List R) : Option R := (coords.foldl mlFold m).head?

/-- `MultiLin.Eq(q)` started from `m[0] = c`: the table `b ↦ c·∏ᵢ (qᵢ if bᵢ else 1 − qᵢ)` -/
def eqTable : List R → R → List R
  | [], c => [c]
  | q :: qs, c => eqTable qs (c - q * c) ++ eqTable qs (q * c)

/-- `EvalEq(q, h) = ∏ᵢ (1 + 2qᵢhᵢ − qᵢ − hᵢ)`.  FINDING: Go returns 0 for the empty product. -/
def evalEq : List R → List R → R
  | q :: qs, h :: hs => (q * h + q * h + 1 - (q + h)) * evalEq qs hs
  | _, _ => 1

def mlSum (m : List R) : R := m.foldl (· + ·) 0

end Alg

/-! ### serialisation (`WriteTo` / `ReadFrom`), on raw naturals -/

structure Rec where
  coeffs : List Nat
  basis : Nat      -- Basis code: 1, 2, 4
  layout : Nat     -- Layout code: 8, 16
  shift : Int
  size : Nat
  coset : Nat
deriving DecidableEq, Repr

def encodeVec (nb : Nat) : List Nat → List UInt8
  | [] => []
  | c :: cs => natToBE nb c ++ encodeVec nb cs

/-- `uint32(int)` two's complement -/
def shiftU32 (s : Int) : Nat := (s % (2^32 : Int)).toNat
/-- signed reading of the 32-bit word (the property: the shift survives a round trip).
    FINDING: Go reads `int(uint32)`, so a negative shift comes back as `2^32 − |s|`. -/
def shiftOfU32 (u : Nat) : Int := if u < 2^31 then (u : Int) else (u : Int) - 2^32

def encode (nb : Nat) (p : Rec) : List UInt8 :=
  natToBE 4 p.coeffs.length ++ (encodeVec nb p.coeffs ++ (natToBE 4 p.basis ++ (natToBE 4 p.layout ++
    (natToBE 4 (shiftU32 p.shift) ++ (natToBE 4 p.size ++ natToBE nb p.coset)))))

def decodeVec (nb q : Nat) : Nat → List UInt8 → Except RdErr (List Nat × List UInt8)
  | 0, bs => .ok ([], bs)
  | k+1, bs =>
    match readElem nb q bs with
    | .error e => .error e
    | .ok (x, r) =>
      match decodeVec nb q k r with
      | .error e => .error e
      | .ok (xs, r) => .ok (x :: xs, r)

def decode (nb q : Nat) (bs : List UInt8) : Except RdErr (Rec × List UInt8) :=
  match takeN 4 bs with
  | .error e => .error e
  | .ok (l, r) =>
  match decodeVec nb q (beToNat l) r with
  | .error e => .error e
  | .ok (cs, r) =>
  match takeN 4 r with
  | .error e => .error e
  | .ok (b, r) =>
  match takeN 4 r with
  | .error e => .error e
  | .ok (ly, r) =>
  match takeN 4 r with
  | .error e => .error e
  | .ok (sh, r) =>
  match takeN 4 r with
  | .error e => .error e
  | .ok (sz, r) =>
  match readElem nb q r with
  | .error e => .error e
  | .ok (co, r) => .ok (⟨cs, beToNat b, beToNat ly, shiftOfU32 (beToNat sh), beToNat sz, co⟩, r)

/-! ### executable instance and line protocol -/

instance {q : Nat} : DecidableEq (ZM q) := fun a b =>
  if h : a.val = b.val then isTrue (by cases a; cases b; simp_all) else isFalse (fun e => h (by rw [e]))

/-- modular inverse by the extended Euclidean algorithm (`0 ↦ 0`) -/
def invE (a q : Nat) : Nat :=
  let rec go (fuel : Nat) (r0 r1 : Nat) (t0 t1 : Int) : Int :=
    match fuel with
    | 0 => 0
    | fuel+1 => if r1 = 0 then (if r0 = 1 then t0 else 0) else go fuel r1 (r0 % r1) t1 (t0 - (r0 / r1 : Nat) * t1)
  ((go (2 * q.log2 + 4) q (a % q) 0 1) % (q : Int)).toNat

def zinv {q : Nat} (x : ZM q) : ZM q := ⟨invE x.val q⟩

/-- `fr.BatchInvert` on the driver instance: prefix products skipping zeros, one inversion, back substitution -/
def zbinv {q : Nat} (xs : List (ZM q)) : List (ZM q) :=
  -- forward: (prefix product before i) for each i, zeros skipped
  let fwd := xs.foldl (fun (st : List (ZM q) × ZM q) x =>
    if x.val = 0 then (st.2 :: st.1, st.2) else (st.2 :: st.1, st.2 * x)) ([], (1 : ZM q))
  let accInv := zinv fwd.2
  -- backward over reversed inputs and reversed prefixes
  let bwd := (List.zip xs.reverse fwd.1).foldl (fun (st : List (ZM q) × ZM q) xp =>
    if xp.1.val = 0 then ((0 : ZM q) :: st.1, st.2) else ((st.2 * xp.2) :: st.1, st.2 * xp.1)) ([], accInv)
  bwd.1

/-- context of one op line: modulus, `L`, generator of order `2^L`, coset shift -/
structure Ctx where
  q : Nat
  L : Nat
  wL : Nat
  g : Nat
  kers : List Nat

def Ctx.gen (c : Ctx) (m : Nat) : Nat := powMod c.wL (2^(c.L - m)) c.q

def Ctx.dom (c : Ctx) (m : Nat) : Domain (ZM c.q) :=
  let w := c.gen m
  { m := m, cardInv := ⟨invE (2^m % c.q) c.q⟩, gen := ⟨w⟩, genInv := ⟨invE w c.q⟩, g := ⟨c.g % c.q⟩,
    gInv := ⟨invE c.g c.q⟩, precomp := true }

def lg2 (n : Nat) : Nat := (nextPow2 n).log2

def Ctx.env (c : Ctx) : Env (ZM c.q) :=
  { inv := zinv, binv := zbinv, genOf := fun n => ⟨c.gen (lg2 n)⟩, genInvOf := fun n => ⟨invE (c.gen (lg2 n)) c.q⟩ }

def parseForm (s : String) : Option (Basis × Bool) :=
  match s with
  | "cr" => some (.canonical, false) | "cb" => some (.canonical, true)
  | "lr" => some (.lagrange, false) | "lb" => some (.lagrange, true)
  | "kr" => some (.lagrangeCoset, false) | "kb" => some (.lagrangeCoset, true)
  | _ => none

def showForm (b : Basis) (br : Bool) : String :=
  (match b with | .canonical => "c" | .lagrange => "l" | .lagrangeCoset => "k") ++ (if br then "b" else "r")

def dump {q : Nat} (p : Poly (ZM q)) : String :=
  showForm p.basis p.bitrev ++ "/" ++ intToHex p.shift ++ "/" ++ toHex p.size ++ "/" ++ showVec p.coeffs

def isPow2 (n : Nat) : Bool := n != 0 && 2^n.log2 == n

def toRec {q : Nat} (p : Poly (ZM q)) : Rec :=
  ⟨p.coeffs.map (·.val), (match p.basis with | .canonical => 1 | .lagrange => 2 | .lagrangeCoset => 4),
    if p.bitrev then 16 else 8, p.shift, p.size, p.coset.val⟩

def ofRec {q : Nat} (r : Rec) : Option (Poly (ZM q)) :=
  let b := if r.basis = 1 then some Basis.canonical else if r.basis = 2 then some Basis.lagrange
    else if r.basis = 4 then some Basis.lagrangeCoset else none
  let l := if r.layout = 8 then some false else if r.layout = 16 then some true else none
  match b, l with
  | some b, some l => some ⟨r.coeffs.map (fun x => ⟨x⟩), b, l, r.shift, r.size, ⟨r.coset⟩⟩
  | _, _ => none

/-- `Ctx.dom` with the coset shift chosen by the script (`d<shift>`: fft.WithShift) -/
def Ctx.domG (c : Ctx) (g m : Nat) : Domain (ZM c.q) :=
  let w := c.gen m
  { m := m, cardInv := ⟨invE (2^m % c.q) c.q⟩, gen := ⟨w⟩, genInv := ⟨invE w c.q⟩, g := ⟨g % c.q⟩,
    gInv := ⟨invE g c.q⟩, precomp := true }

/-- state of a script: the current object `p`, a second object `alt` (`N`, `H`, `x`), whether the two are aliases made by
    `ShallowClone` (they share the `*polynomial`: stored vector, basis, layout — and, as the property demands, the coset
    shift that belongs to that representation; `shift` and `size` are per object), the coset shift of the domains used
    by the following conversions, the observations -/
structure St (q : Nat) where
  p : Poly (ZM q)
  alt : Option (Poly (ZM q))
  shared : Bool
  g : Nat
  out : List String

/-- what the alias sees after a step on `p` -/
def St.sync {q : Nat} (s : St q) : St q :=
  if s.shared then
    { s with alt := s.alt.map (fun a => { a with coeffs := s.p.coeffs, basis := s.p.basis, bitrev := s.p.bitrev,
                                                  coset := s.p.coset }) }
  else s

/-- `N<form>:<c0>.<c1>.…[+k]`: a new object (`+k`: built over a buffer with `k` more, non-zero, entries behind it —
    spare capacity is not part of the object, so `k` is ignored here) -/
def parseNew (q : Nat) (rest : String) : Option (Poly (ZM q)) :=
  match rest.splitOn ":" with
  | [f, v] =>
    match parseForm f with
    | some (b, br) =>
      let cs := ((v.splitOn "+").headD "").replace "." ","
      some (newPoly (parseVec q cs) b br)
    | none => none
  | _ => none

/-- one script step; `none` = the line is outside the modelled domain (`bad-op`) -/
def step (c : Ctx) (nb : Nat) (st : St c.q) (tok : String) : Option (St c.q) :=
  let p := st.p
  let out := st.out
  let hd := tok.take 1 |>.toString
  let rest := (tok.drop 1).toString
  let arg := ((rest.splitOn "/").headD "")
  let setp := fun (p' : Poly (ZM c.q)) => some { st with p := p' }
  let obs := fun (s : String) => some { st with out := out ++ [s] }
  let conv := fun (t : Basis) =>
    match parseHex arg with
    | some m => if m ≤ c.L ∧ p.coeffs.length ≤ 2^m ∧ (p.basis = .canonical ∨ p.coeffs.length = 2^m)
                   ∧ (!p.bitrev || isPow2 p.coeffs.length)
                then setp (convertP c.kers t (c.domG st.g m) p) else none
    | none => none
  match hd with
  | "L" => conv .lagrange
  | "C" => conv .canonical
  | "K" => conv .lagrangeCoset
  | "R" => if isPow2 p.coeffs.length then setp (toRegular p) else none
  | "B" => if isPow2 p.coeffs.length then setp (toBitReverse p) else none
  | "S" => setp (setShift p (parseInt rest))
  | "Z" => setp (setSize p (parseHexD rest))
  | "c" => some { st with p := clone p, shared := false }
  | "h" => setp (shallowClone p)
  | "H" => some { st with alt := some (shallowClone p), shared := true }
  | "N" => (parseNew c.q rest).map (fun p' => { st with p := p', alt := some p, shared := false })
  | "x" => st.alt.map (fun a => { st with p := a, alt := some p })
  | "d" =>
    match parseHex rest with
    | some s => if s = 0 ∨ s ≥ c.q then none else some { st with g := s }
    | none => none
  | "r" =>
    -- `p.ReadFrom(bytes of alt)`: the receiver is an object that has been used before
    match st.alt with
    | some a =>
      match decode nb c.q (encode nb (toRec a)) with
      | .ok (r, []) => (ofRec r).bind setp
      | _ => none
    | none => none
  | "w" =>
    match decode nb c.q (encode nb (toRec p)) with
    | .ok (r, []) => (ofRec r).map (fun p' => { st with p := p', shared := false })
    | _ => none
  | "W" => obs (bytesToHex (encode nb (toRec p)))
  | "E" =>
    if p.size = 0 ∨ lg2 p.size > c.L ∨ lg2 p.coeffs.length > c.L then none else
    obs (toHex (evaluate c.env p (zm c.q (parseHexD rest))).val)
  | "G" =>
    if p.size = 0 then obs "panic" else
    obs (showVec ((List.range p.coeffs.length).map (getCoeff p)))
  | "g" =>
    if p.size = 0 then obs "panic" else
    obs (toHex (getCoeff p (parseHexD rest)).val)
  | "F" => obs (dump p)
  | _ => none

/-- a leading `D<k>` says that the initial object is built over a buffer with `k` more (non-zero) entries behind its
    coefficient slice (a prefix view `h[:n]`, a truncated vector): not part of the object, dropped here -/
def dropDirty (toks : List String) : List String :=
  match toks with
  | t :: ts => if t.startsWith "D" ∧ (parseHex (t.drop 1).toString).isSome then ts else toks
  | [] => []

def runScript (c : Ctx) (nb : Nat) (p : Poly (ZM c.q)) (script : String) : Option (Poly (ZM c.q) × List String) :=
  if script == "-" then some (p, []) else
  let toks := dropDirty (script.splitOn ",")
  let r := toks.foldl (fun st tok => st.bind (fun s => (step c nb s tok).map St.sync))
    (some (⟨p, none, false, c.g, []⟩ : St c.q))
  r.map (fun s => (s.p, s.out))

def parseCtx (curve qs Ls ws gs : String) : Option Ctx :=
  match kernelsOf curve, parseHex qs, parseHex Ls, parseHex ws, parseHex gs with
  | some kers, some q, some L, some w, some g => if q < 2 then none else some ⟨q, L, w, g, kers⟩
  | _, _, _, _, _ => none

/-- polynomials of the multi-polynomial ops: `<form> <coeffs> <shift> <size>` -/
def parsePolys (q : Nat) : Nat → List String → Option (List (Poly (ZM q)) × List String)
  | 0, rest => some ([], rest)
  | k+1, f :: cs :: sh :: sz :: rest =>
    match parseForm f, parsePolys q k rest with
    | some (b, br), some (ps, rest') =>
      some ((⟨parseVec q cs, b, br, parseInt sh, parseHexD sz, 0⟩ : Poly (ZM q)) :: ps, rest')
    | _, _ => none
  | _, _ => none

/-- the fixed expressions of the `expr` op -/
def exprOf {q : Nat} (id : Nat) (i : Nat) (x : List (ZM q)) : ZM q :=
  let a := x.getD 0 0
  let b := x.getD 1 0
  let c := x.getD 2 0
  match id with
  | 0 => a * b + c
  | 1 => a + zm q i
  | 2 => a * a - b * c + zm q (i*i)
  | _ => x.foldl (· + ·) 0

def showOpt {q : Nat} (o : Option (ZM q)) : String :=
  match o with | some v => toHex v.val | none => "panic"

/-- `divxs` / `divxu`: `DivideByXMinusOne` on domains with the coset shift `s` (fft.WithShift). `divxs` lines must lie
    inside the domain where the division is defined (`divisionDefined`) and are answered in full; `divxu` lines must lie
    outside and are answered by the shape of the result only (no error, no panic; the values there are not specified). -/
def divxShift (wantDefined : Bool) (curve qs Ls ws gs m0s m1s ss form cs script : String) : String :=
  match parseCtx curve qs Ls ws gs, parseForm form, parseHex m0s, parseHex m1s, parseHex ss with
  | some c0, some (b, br), some m0, some m1, some s =>
    if s = 0 ∨ s ≥ c0.q ∨ m0 > m1 ∨ m1 > c0.L then "bad-op" else
    let c : Ctx := { c0 with g := s }
    if divisionDefined (c.dom m1) != wantDefined then "bad-op" else
    match runScript c 0 (newPoly (parseVec c.q cs) b br) script with
    | some (a, _) =>
      if a.basis ≠ .lagrangeCoset then "err:basis" else
      if a.size = 0 ∨ a.coeffs.length ≠ 2^m1 ∨ a.coeffs.length / a.size > 2^(m1-m0) then "bad-op" else
      match divideByXMinusOne c.kers zinv (c.dom m0) (c.dom m1) a with
      | some r =>
        if wantDefined then dump r else
        "undef " ++ showForm r.basis r.bitrev ++ "/" ++ intToHex r.shift ++ "/" ++ toHex r.size ++ "/" ++ toHex r.coeffs.length
      | none => "err:basis"
    | none => "bad-op"
  | _, _, _, _, _ => "bad-op"

def handle1 (args : List String) : String :=
  match args with
  | "expr" :: curve :: qs :: Ls :: ws :: gs :: resform :: rmode :: eid :: ks :: rest =>
    match parseCtx curve qs Ls ws gs, parseForm resform with
    | some c, some (b, br) =>
      match parsePolys c.q (parseHexD ks) rest with
      | some (ps, []) =>
        match ps with
        | [] => "err:noinput"
        | x0 :: _ =>
          if ps.any (fun x => x.coeffs.length != x0.coeffs.length) then "err:size" else
          if rmode != "nil" && parseHexD rmode != x0.coeffs.length then "err:size" else
          if ps.any (fun x => x.size = 0) then "panic" else
          if !isPow2 x0.coeffs.length then "bad-op" else
          match exprEval (exprOf (parseHexD eid)) b br ps with
          | some r => dump r
          | none => "bad-op"
      | _ => "bad-op"
    | _, _ => "bad-op"
  | ["divx", curve, qs, Ls, ws, gs, m0s, m1s, form, cs, script] =>
    match parseCtx curve qs Ls ws gs, parseForm form, parseHex m0s, parseHex m1s with
    | some c, some (b, br), some m0, some m1 =>
      match runScript c 0 (newPoly (parseVec c.q cs) b br) script with
      | some (a, _) =>
        if a.basis ≠ .lagrangeCoset then "err:basis" else
        if a.size = 0 ∨ m0 > m1 ∨ m1 > c.L ∨ a.coeffs.length ≠ 2^m1 ∨ a.coeffs.length / a.size > 2^(m1-m0) then "bad-op" else
        match divideByXMinusOne c.kers zinv (c.dom m0) (c.dom m1) a with
        | some r => dump r
        | none => "err:basis"
      | none => "bad-op"
    | _, _, _, _ => "bad-op"
  | ["divxs", curve, qs, Ls, ws, gs, m0s, m1s, ss, form, cs, script] =>
    divxShift true curve qs Ls ws gs m0s m1s ss form cs script
  | ["divxu", curve, qs, Ls, ws, gs, m0s, m1s, ss, form, cs, script] =>
    divxShift false curve qs Ls ws gs m0s m1s ss form cs script
  | "ratios" :: curve :: qs :: Ls :: ws :: gs :: resform :: betas :: xs :: ks :: rest =>
    match parseCtx curve qs Ls ws gs, parseForm resform with
    | some c, some (b, br) =>
      let k := parseHexD ks
      match parsePolys c.q (2*k) rest with
      | some (ps, []) =>
        match ps with
        | [] => "panic"
        | x0 :: _ =>
          let n := x0.coeffs.length
          if ps.any (fun x => x.coeffs.length != n) then "err:size" else
          if !isPow2 n then "err:pow2" else
          if n.log2 > c.L then "bad-op" else
          let r := ratioShuffled c.kers zinv (c.dom n.log2) (ps.take k) (ps.drop k) (zm c.q (parseHexD betas)) b br
          if xs == "-" then dump r else
          dump r ++ " " ++ toHex (evaluate c.env { r with coset := ⟨c.g % c.q⟩ } (zm c.q (parseHexD xs))).val
      | _ => "bad-op"
    | _, _ => "bad-op"
  | "ratioc" :: curve :: qs :: Ls :: ws :: gs :: resform :: betas :: gammas :: perms :: xs :: ks :: rest =>
    match parseCtx curve qs Ls ws gs, parseForm resform with
    | some c, some (b, br) =>
      let k := parseHexD ks
      match parsePolys c.q k rest with
      | some (ps, []) =>
        match ps with
        | [] => "panic"
        | x0 :: _ =>
          let n := x0.coeffs.length
          if ps.any (fun x => x.coeffs.length != n) then "bad-op" else
          if !isPow2 n then "err:pow2" else
          if n.log2 > c.L then "bad-op" else
          let perm := (perms.splitOn ",").map parseHexD
          if perm.length ≠ k*n ∨ perm.any (fun v => v ≥ k*n) then "bad-op" else
          let r := ratioCopy c.kers zinv (c.dom n.log2) ps perm (zm c.q (parseHexD betas)) (zm c.q (parseHexD gammas)) b br
          if xs == "-" then dump r else
          dump r ++ " " ++ toHex (evaluate c.env { r with coset := ⟨c.g % c.q⟩ } (zm c.q (parseHexD xs))).val
      | _ => "bad-op"
    | _, _ => "bad-op"
  | ["read", _curve, qs, nbs, bs] =>
    match parseHex qs, parseHex nbs with
    | some q, some nb =>
      match decode nb q (parseBytes bs) with
      | .error .eof => "err:eof"
      | .error .range => "err:range"
      | .ok (r, _) => " ".intercalate ["ok", toHex r.basis, toHex r.layout, intToHex r.shift, toHex r.size,
          if r.coeffs.isEmpty then "-" else ",".intercalate (r.coeffs.map toHex)]
    | _, _ => "bad-op"
  | ["peval", _curve, qs, cs, xs] =>
    match parseHex qs with
    | some q => showOpt (pEval (parseVec q cs) (zm q (parseHexD xs)))
    | none => "bad-op"
  | ["interp", _curve, qs, vs] =>
    match parseHex qs with
    | some q => match interpolateOnRange zinv (parseVec q vs) with
      | some r => showVec r
      | none => "panic"
    | none => "bad-op"
  | ["padd", _curve, qs, _mode, _ps, as, bs] =>
    match parseHex qs with
    | some q => showVec (padd (parseVec q as) (parseVec q bs))
    | none => "bad-op"
  | ["psub", _curve, qs, _mode, ps, as, bs] =>
    match parseHex qs with
    | some q => match psub (parseVec q ps).length (parseVec q as) (parseVec q bs) with
      | some r => showVec r
      | none => "nil"
    | none => "bad-op"
  | ["pscale", _curve, qs, _mode, cs, as] =>
    match parseHex qs with
    | some q => showVec (pscale (zm q (parseHexD cs)) (parseVec q as))
    | none => "bad-op"
  | ["pconst", _curve, qs, op, cs, as] =>
    match parseHex qs with
    | some q =>
      let c := zm q (parseHexD cs)
      let a := parseVec q as
      if op == "add" then showVec (a.map (· + c)) else if op == "sub" then showVec (a.map (· - c))
      else if op == "scale" then showVec (a.map (· * c)) else "bad-op"
    | none => "bad-op"
  | ["mlfold", _curve, qs, ms, rs] =>
    match parseHex qs with
    | some q => showVec (mlFold (parseVec q ms) (zm q (parseHexD rs)))
    | none => "bad-op"
  | ["mleval", _curve, qs, _pool, ms, cs] =>
    match parseHex qs with
    | some q => showOpt (mlEvaluate (parseVec q ms) (parseVec q cs))
    | none => "bad-op"
  | ["mleq", _curve, qs, ms, vs] =>
    match parseHex qs with
    | some q =>
      let m := parseVec q ms
      let v := parseVec q vs
      if m.length ≠ 2^v.length then "panic" else showVec (eqTable v (m.headD 0))
    | none => "bad-op"
  | ["evaleq", _curve, qs, vs, hs] =>
    match parseHex qs with
    | some q =>
      let v := parseVec q vs
      let h := parseVec q hs
      if h.length < v.length then "panic" else toHex (evalEq v h).val
    | none => "bad-op"
  | ["mlsum", _curve, qs, ms] =>
    match parseHex qs with
    | some q =>
      let m := parseVec q ms
      if m.isEmpty then "panic" else toHex (mlSum m).val
    | none => "bad-op"
  | [kind, curve, qs, Ls, ws, gs, nbs, form, cs, script] =>
    if kind ∉ ["conv", "shift", "evalpt", "getcoeff", "clone", "ser", "cosetnew", "obj"] then "bad-op" else
    match parseCtx curve qs Ls ws gs, parseForm form with
    | some c, some (b, br) =>
      match runScript c (parseHexD nbs) (newPoly (parseVec c.q cs) b br) script with
      | some (_, out) => if out.isEmpty then "-" else " ".intercalate out
      | none => "bad-op"
    | _, _ => "bad-op"
  | _ => "bad-op"

/-- segments of a `hist` line: the words between the `/` separators (`n` separators give `n+1` segments) -/
def splitSegs : List String → List (List String)
  | [] => [[]]
  | w :: ws =>
    match splitSegs ws with
    | [] => [[w]]
    | s :: ss => if w == "/" then [] :: s :: ss else (w :: s) :: ss

/-- Call histories. The model is a pure function of the op line, so `rep k op` (the same call executed `k` times in one
    process) is answered by `k` copies of the answer to `op`, and `hist op₁ / op₂ / …` by the answers to the ops taken
    one by one: no call may depend on the calls made before it (caches, pools, shared domains, returned slices). -/
def handle (args : List String) : String :=
  match args with
  | "rep" :: ks :: inner =>
    match parseHex ks with
    | some k => if k < 1 ∨ k > 16 then "bad-op" else " | ".intercalate (List.replicate k (handle1 inner))
    | none => "bad-op"
  | ["rep"] => "bad-op"
  | "hist" :: rest => " | ".intercalate ((splitSegs rest).map handle1)
  | _ => handle1 args

end GV.Poly
