import GnarkVerif.Model.Util
/-
C01 (and C08/C09/C19 reuse it) — executable model of one prime-field package at the *value* level:
an element is the natural number `z = Σ z[i]·W^i < q` held in the limbs (Montgomery residue of the
abstract value `z·R⁻¹ mod q`, `R = W^n`). The word-serial Montgomery product follows the outer loop of
`_mulGeneric` (CIOS, one word of `y` per iteration, the source constant `qInvNeg`), everything else is the
modular operation with the conditional subtraction the Go code performs.
-/
namespace GV.Field

structure Params where
  q : Nat
  w : Nat          -- word size in bits (64 or 32)
  n : Nat          -- number of words
  qInvNeg : Nat    -- -q⁻¹ mod 2^w
deriving Repr

namespace Params
def W (p : Params) : Nat := 2 ^ p.w
def R (p : Params) : Nat := 2 ^ (p.w * p.n)
end Params

variable (p : Params)

/-- one outer iteration of CIOS on integers: `t ← (t + x·yᵢ + m·q) / W`, `m = (t + x·yᵢ)·qInvNeg mod W` -/
def ciosStep (x t yi : Nat) : Nat :=
  let t1 := t + x * yi
  let m := (t1 % p.W) * p.qInvNeg % p.W
  (t1 + m * p.q) / p.W

/-- the `i`-th word of `y` -/
def word (y i : Nat) : Nat := (y / p.W ^ i) % p.W

def montRaw (x y : Nat) : Nat :=
  (List.range p.n).foldl (fun t i => ciosStep p x t (word p y i)) 0

/-- final conditional subtraction -/
def reduceOnce (t : Nat) : Nat := if t ≥ p.q then t - p.q else t

/-- Montgomery product: `mul x y · R ≡ x·y (mod q)`, canonical -/
def mul (x y : Nat) : Nat := reduceOnce p (montRaw p x y)

def add (x y : Nat) : Nat := reduceOnce p (x + y)
def double (x : Nat) : Nat := reduceOnce p (x + x)
def sub (x y : Nat) : Nat := if x < y then x + p.q - y else x - y
def neg (x : Nat) : Nat := if x = 0 then 0 else p.q - x
def halve (x : Nat) : Nat := if x % 2 = 1 then (x + p.q) / 2 else x / 2
def square (x : Nat) : Nat := mul p x x

/-- R mod q: the Montgomery form of 1 -/
def one : Nat := p.R % p.q
/-- R² mod q (the source constant `rSquare`; recomputed here, compared with the extracted one in Props) -/
def rSquare : Nat := (p.R * p.R) % p.q
def toMont (v : Nat) : Nat := mul p v (rSquare p)
def fromMont (z : Nat) : Nat := mul p z 1

/-- Element.Exp's loop for `e ≥ 1`: start from `x`, then for every bit below the leading one
(most significant first) square and conditionally multiply -/
def expLoop (x : Nat) (e : Nat) : Nat → Nat → Nat
  | 0, acc => acc
  | i+1, acc =>
    let acc := square p acc
    let acc := if e.testBit i then mul p acc x else acc
    expLoop x e i acc

def expNat (x : Nat) (e : Nat) : Nat :=
  if e = 0 then one p else expLoop p x e e.log2 x

/-- inverse through Fermat (`inverseExp`); `Inverse` must return the same canonical value, 0 ↦ 0 -/
def inv (x : Nat) : Nat := if x = 0 then 0 else expNat p x (p.q - 2)

/-- Element.Exp for every integer exponent: 0 ↦ 1, negative through the inverse -/
def exp (x : Nat) (k : Int) : Nat :=
  if k = 0 then one p
  else if k < 0 then expNat p (inv p x) k.natAbs
  else expNat p x k.natAbs

def div (x y : Nat) : Nat := mul p x (inv p y)

def mulBySmall (c : Nat) (x : Nat) : Nat := (c * x) % p.q

/-- Legendre symbol through Euler's criterion on the abstract value: 0, 1 or -1 -/
def legendre (x : Nat) : Int :=
  if x = 0 then 0
  else if expNat p x ((p.q - 1) / 2) = one p then 1 else -1

/-- regular (non-Montgomery) value -/
def toRegular (z : Nat) : Nat := fromMont p z

/-- `v > (q-1)/2` on the regular value -/
def lexLargest (z : Nat) : Bool := toRegular p z > (p.q - 1) / 2

def cmp (x y : Nat) : Int :=
  let a := toRegular p x; let b := toRegular p y
  if a < b then -1 else if a > b then 1 else 0

/-- Tonelli–Shanks on regular values (reference; result canonicalised to min(r, q-r) by the protocol) -/
def sqrtRegular (a : Nat) : Option Nat :=
  let q := p.q
  if a % q = 0 then some 0
  else if powMod a ((q-1)/2) q ≠ 1 then none
  else if q % 4 = 3 then some (powMod a ((q+1)/4) q)
  else
    -- q - 1 = s·2^e
    let rec split (fuel s e : Nat) : Nat × Nat :=
      match fuel with
      | 0 => (s, e)
      | f+1 => if s % 2 = 0 then split f (s/2) (e+1) else (s, e)
    let (s, e) := split (q.log2 + 1) (q-1) 0
    -- smallest non-residue
    let rec findNR (fuel g : Nat) : Nat :=
      match fuel with
      | 0 => g
      | f+1 => if powMod g ((q-1)/2) q = q - 1 then g else findNR f (g+1)
    let g := findNR 1000 2
    let z := powMod g s q
    let rec loop (fuel m c t r : Nat) : Option Nat :=
      match fuel with
      | 0 => none
      | f+1 =>
        if t = 1 then some r else
        -- least i with t^(2^i) = 1
        let rec ord (fuel i tt : Nat) : Nat :=
          match fuel with
          | 0 => i
          | f2+1 => if tt = 1 then i else ord f2 (i+1) (tt*tt % q)
        let i := ord m 0 t
        if i ≥ m then none else
        let b := powMod c (2 ^ (m - i - 1)) q
        loop f i (b*b % q) (t*b*b % q) (r*b % q)
    loop (e+2) e z (powMod a s q) (powMod a ((s+1)/2) q)

/-- BatchInvert, forward pass: prefix products skipping zeros (`res[i] = accumulator; accumulator *= a[i]`) -/
def batchFwd : List Nat → Nat → List Nat × Nat
  | [], acc => ([], acc)
  | a :: as, acc =>
    if a = 0 then
      let (r, acc') := batchFwd as acc
      (0 :: r, acc')
    else
      let (r, acc') := batchFwd as (mul p acc a)
      (acc :: r, acc')

/-- backward pass over the reversed inputs / prefixes (`res[i] *= accumulator; accumulator *= a[i]`) -/
def batchBwd : List Nat → List Nat → Nat → List Nat
  | a :: as, r :: rs, acc =>
    if a = 0 then 0 :: batchBwd as rs acc
    else mul p r acc :: batchBwd as rs (mul p acc a)
  | _, _, _ => []

/-- BatchInvert as the Go code computes it (Montgomery's trick, zeros skipped) -/
def batchInv (xs : List Nat) : List Nat :=
  let (pre, acc) := batchFwd p xs (one p)
  (batchBwd p xs.reverse pre.reverse (inv p acc)).reverse

def vecAdd (a b : List Nat) : List Nat := List.zipWith (add p) a b
def vecSub (a b : List Nat) : List Nat := List.zipWith (sub p) a b
def vecMul (a b : List Nat) : List Nat := List.zipWith (mul p) a b
def vecScalarMul (a : List Nat) (s : Nat) : List Nat := a.map (fun x => mul p x s)
def vecSum (a : List Nat) : Nat := a.foldl (add p) 0
def vecInner (a b : List Nat) : Nat := (List.zipWith (mul p) a b).foldl (add p) 0

end GV.Field
