import GnarkVerif.Model.Util
/-
C19 — receiver and operands may alias: a small memory model of method bodies.

* Memory is a map from physical *cells* to values. A parameter object `o` has components `obj o f`
  (`z.A0`, `z.A1`, limb `f` of an element, entry `f` of a vector …); locals (`var a, b, c fp.Element`) are `loc k`.
* A method body is a list of primitive updates `dst := op(src₁, …, srcₙ)` over cell *names*:
  `param i f` = component `f` of the i-th pointer parameter (0 = receiver), `loc k` = a local.
  A primitive is atomic: all sources are read, then the destination is written (this is what the limb level provides
  one level down, and what `C19_prim_aliasSafe` states for a single primitive).
* An alias pattern `π : Nat → Nat` maps parameter indices to objects; `π i = π j` means "parameter i is parameter j"
  (whole-object aliasing: component f of one is component f of the other). The identity pattern is the call on
  pairwise distinct objects; `pull π m` is the memory in which parameter i lives in its own object i and holds the
  value that object `π i` holds in `m` ("distinct objects holding equal values").
* `copyInOK` is the executable check of the component-wise copy-in discipline:
    (1) the body writes only receiver components and locals,
    (2) once receiver component f has been written, component f of no *other* parameter is read any more
        (the receiver's own component may be re-read: `z.A1.Sub(&a,&b).Sub(&z.A1,&c)`).
  `copyInStrict` is the coarser textbook discipline (no parameter cell is read after the first write to a parameter
  cell); it implies `copyInOK`.
Only Lean core is imported (the driver links this file).
-/
namespace GV.Alias

inductive Name where
  | param (i f : Nat)
  | loc (k : Nat)
  deriving DecidableEq, Repr

inductive Cell where
  | obj (o f : Nat)
  | loc (k : Nat)
  deriving DecidableEq, Repr

structure Prim where
  dst : Name
  op : Nat
  srcs : List Name
  deriving Repr

abbrev Body := List Prim
abbrev Pattern := Nat → Nat
abbrev Mem (V : Type) := Cell → V

def resolve (π : Pattern) : Name → Cell
  | .param i f => .obj (π i) f
  | .loc k => .loc k

def Mem.set {V : Type} (m : Mem V) (c : Cell) (v : V) : Mem V := fun c' => if c' = c then v else m c'

/-- one atomic primitive: read every source, apply the operation, write the destination -/
def step {V : Type} (I : Nat → List V → V) (π : Pattern) (m : Mem V) (p : Prim) : Mem V :=
  m.set (resolve π p.dst) (I p.op (p.srcs.map fun s => m (resolve π s)))

def run {V : Type} (I : Nat → List V → V) (π : Pattern) (b : Body) (m : Mem V) : Mem V :=
  b.foldl (step I π) m

/-- distinct objects holding equal values -/
def pull {V : Type} (π : Pattern) (m : Mem V) : Mem V
  | .obj i f => m (.obj (π i) f)
  | .loc k => m (.loc k)

/-- a source may be read when it is a local, a receiver component, or a component not yet written in the receiver -/
def srcOK (W : List Nat) : Name → Bool
  | .param 0 _ => true
  | .param (_ + 1) f => !W.contains f
  | .loc _ => true

def copyInAux (W : List Nat) : Body → Bool
  | [] => true
  | p :: b =>
    p.srcs.all (srcOK W) &&
      match p.dst with
      | .param 0 f => copyInAux (f :: W) b
      | .param (_ + 1) _ => false
      | .loc _ => copyInAux W b

/-- executable checker of the (component-wise) copy-in discipline -/
def copyInOK (b : Body) : Bool := copyInAux [] b

def isParam : Name → Bool
  | .param _ _ => true
  | .loc _ => false

def copyInStrictAux (written : Bool) : Body → Bool
  | [] => true
  | p :: b =>
    (!written || p.srcs.all fun s => !isParam s) &&
      match p.dst with
      | .param 0 _ => copyInStrictAux true b
      | .param (_ + 1) _ => false
      | .loc _ => copyInStrictAux written b

/-- the coarse discipline: every parameter cell is read before the first write to a parameter cell -/
def copyInStrict (b : Body) : Bool := copyInStrictAux false b

/-- alias safety of a body, for every value type, every interpretation of the primitive operations, every alias pattern
and every initial memory:
 (1) every receiver component ends with the value it gets when all parameters are distinct objects holding equal values,
 (2) so do the locals,
 (3) every object that is not the receiver's object is unchanged (operands not aliased with the destination). -/
def aliasSafe (b : Body) : Prop :=
  ∀ (V : Type) (I : Nat → List V → V) (π : Pattern) (m : Mem V),
    (∀ f, run I π b m (.obj (π 0) f) = run I id b (pull π m) (.obj 0 f)) ∧
    (∀ k, run I π b m (.loc k) = run I id b (pull π m) (.loc k)) ∧
    (∀ o f, o ≠ π 0 → run I π b m (.obj o f) = m (.obj o f))

/-! ### example bodies (x = param 1, y = param 2, z = receiver; components A0 = 0, A1 = 1; ops 0 add, 1 mul, 2 sub,
3 (a·b − c·d), 4 (a·b + c·d), 5 div, 6 square) -/

def x0 : Name := .param 1 0
def x1 : Name := .param 1 1
def y0 : Name := .param 2 0
def y1 : Name := .param 2 1
def z0 : Name := .param 0 0
def z1 : Name := .param 0 1

/-- `E2.Mul` (Karatsuba with three temporaries), statement for statement as in fptower/e2_*.go (β = −1) -/
def e2Mul : Body :=
  [ ⟨.loc 0, 0, [x0, x1]⟩,        -- a.Add(&x.A0, &x.A1)
    ⟨.loc 1, 0, [y0, y1]⟩,        -- b.Add(&y.A0, &y.A1)
    ⟨.loc 0, 1, [.loc 0, .loc 1]⟩, -- a.Mul(&a, &b)
    ⟨.loc 1, 1, [x0, y0]⟩,        -- b.Mul(&x.A0, &y.A0)
    ⟨.loc 2, 1, [x1, y1]⟩,        -- c.Mul(&x.A1, &y.A1)
    ⟨z1, 2, [.loc 0, .loc 1]⟩,    -- z.A1.Sub(&a, &b)
    ⟨z1, 2, [z1, .loc 2]⟩,        --     .Sub(&z.A1, &c)
    ⟨z0, 2, [.loc 1, .loc 2]⟩ ]   -- z.A0.Sub(&b, &c)

/-- schoolbook complex multiplication writing `z.A0` before it reads `x.A0` again: NOT alias safe -/
def naiveMul : Body :=
  [ ⟨z0, 3, [x0, y0, x1, y1]⟩,    -- z.A0 = x.A0·y.A0 − x.A1·y.A1
    ⟨z1, 4, [x0, y1, x1, y0]⟩ ]   -- z.A1 = x.A0·y.A1 + x.A1·y.A0   (reads x.A0 after z.A0 was written)

/-- the shape of `E6.DecompressKarabina` in bw6-761/bw6-633 (`E24` in bls24-315/317): `z.B1.A1.Div(&t0,&t1)` and later
`t2.Square(&x.B1.A1)` (component 4 = B1.A1) -/
def karabinaShape : Body :=
  [ ⟨.param 0 4, 5, [.loc 0, .loc 1]⟩, ⟨.loc 2, 6, [.param 1 4]⟩, ⟨.param 0 0, 0, [.loc 2, .loc 1]⟩ ]

/-- element-wise vector operation `res[i] = op(a[i], b[i])` for i = s … s+n−1 (`Vector.Add/Sub/Mul`, `Polynomial.Sub`, `MultiLin.Add`) -/
def vecFrom (op : Nat) : Nat → Nat → Body
  | _, 0 => []
  | s, n + 1 => ⟨.param 0 s, op, [.param 1 s, .param 2 s]⟩ :: vecFrom op (s + 1) n

def vecBody (op n : Nat) : Body := vecFrom op 0 n

/-- integer interpretation of the example operations -/
def intOps : Nat → List Int → Int
  | 0, [a, b] => a + b
  | 1, [a, b] => a * b
  | 2, [a, b] => a - b
  | 3, [a, b, c, d] => a * b - c * d
  | 4, [a, b, c, d] => a * b + c * d
  | 6, [a] => a * a
  | 7, [a] => a
  | _, _ => 0

/-! ### interior aliasing: a parameter component may live ANYWHERE (a lower-level operand pointing into the receiver)
A placement `ρ i f` = (object, component) that holds component `f` of parameter `i`: `z.MulByElement(x, &z.A0)` is the placement
that puts component 0 of parameter 2 at (0, 0). Whole-object patterns are the placements `fun i f => (π i, f)`. The receiver's own
components must be pairwise distinct cells (`recvInjective`). -/

abbrev Placement := Nat → Nat → Nat × Nat

def place (ρ : Placement) : Name → Cell
  | .param i f => .obj (ρ i f).1 (ρ i f).2
  | .loc k => .loc k

def stepAt {V : Type} (I : Nat → List V → V) (ρ : Placement) (m : Mem V) (p : Prim) : Mem V :=
  m.set (place ρ p.dst) (I p.op (p.srcs.map fun s => m (place ρ s)))

def runAt {V : Type} (I : Nat → List V → V) (ρ : Placement) (b : Body) (m : Mem V) : Mem V :=
  b.foldl (stepAt I ρ) m

/-- distinct objects holding the values the placed components hold -/
def pullAt {V : Type} (ρ : Placement) (m : Mem V) : Mem V
  | .obj i f => m (place ρ (.param i f))
  | .loc k => m (.loc k)

def recvInjective (ρ : Placement) : Prop := ∀ f f', ρ 0 f = ρ 0 f' → f = f'

/-- interior-alias safety: wherever the parameter components live (receiver components pairwise distinct), every receiver
component ends with the value it gets when all parameters are distinct objects holding equal values -/
def interiorSafe (b : Body) : Prop :=
  ∀ (V : Type) (I : Nat → List V → V) (ρ : Placement), recvInjective ρ → ∀ (m : Mem V) (f : Nat),
    runAt I ρ b m (place ρ (.param 0 f)) = run I id b (pullAt ρ m) (.obj 0 f)

/-! Typed interior aliasing: parameters flagged `low i` are LOWER-LEVEL operands (a base-field scalar, an `E2` coefficient of a
sparse product) that may live anywhere — inside the receiver, inside another operand, or on their own; the other parameters have
the receiver's type and alias as whole objects (pattern `π`). `copyInMixed` = the component-wise copy-in discipline for the
whole-object parameters + "no lower-level operand is read after the first write to a receiver component". -/

def srcOKMixed (low : Nat → Bool) (W : List Nat) : Name → Bool
  | .param 0 _ => true
  | .param (i + 1) f => if low (i + 1) then W.isEmpty else !W.contains f
  | .loc _ => true

def copyInMixedAux (low : Nat → Bool) (W : List Nat) : Body → Bool
  | [] => true
  | p :: b =>
    p.srcs.all (srcOKMixed low W) &&
      match p.dst with
      | .param 0 f => copyInMixedAux low (f :: W) b
      | .param (_ + 1) _ => false
      | .loc _ => copyInMixedAux low W b

def copyInMixed (low : Nat → Bool) (b : Body) : Bool := copyInMixedAux low [] b

def mixedPlacement (low : Nat → Bool) (π : Pattern) (ρ : Placement) : Prop :=
  low 0 = false ∧ ∀ i, low i = false → ∀ f, ρ i f = (π i, f)

/-- the receiver ends with the by-value result for every whole-object pattern of the same-typed parameters and EVERY position
of the lower-level operands -/
def interiorSafeFor (low : Nat → Bool) (b : Body) : Prop :=
  ∀ (V : Type) (I : Nat → List V → V) (π : Pattern) (ρ : Placement), mixedPlacement low π ρ → ∀ (m : Mem V) (f : Nat),
    runAt I ρ b m (.obj (π 0) f) = run I id b (pullAt ρ m) (.obj 0 f)

/-- `E3.MulByElement(x, y)` of bw6-761 (y = component 0 of parameter 2; op 7 = copy): `_y := *y` first -/
def mulByElementCopy : Body :=
  [ ⟨.loc 0, 7, [.param 2 0]⟩, ⟨.param 0 0, 1, [.param 1 0, .loc 0]⟩, ⟨.param 0 1, 1, [.param 1 1, .loc 0]⟩,
    ⟨.param 0 2, 1, [.param 1 2, .loc 0]⟩ ]

/-- the same without the defensive copy (small-field `E2.MulByElement`, and the seeded change) -/
def mulByElementNoCopy : Body :=
  [ ⟨.param 0 0, 1, [.param 1 0, .param 2 0]⟩, ⟨.param 0 1, 1, [.param 1 1, .param 2 0]⟩,
    ⟨.param 0 2, 1, [.param 1 2, .param 2 0]⟩ ]

/-! ### line protocol
`C19 <pkg.Type> <Method> <partition> <kinds>:<seed>` → `same=1 ops=1`.
In the by-value model a method is a function of the operand VALUES, so the answer does not depend on the type, the method,
the partition or the seed; the model side only validates the syntax of the line (the same checks as the Go executor):
partition = blocks separated by `|`, each a strictly increasing string of lower-case hex digits, blocks ordered by their first
position, positions exactly 0 … n−1; kinds = one digit 0…6 per block; seed = 1…16 lower-case hex digits. -/

def hexDigit (c : Char) : Option Nat :=
  if '0' ≤ c ∧ c ≤ '9' then some (c.toNat - '0'.toNat)
  else if 'a' ≤ c ∧ c ≤ 'f' then some (c.toNat - 'a'.toNat + 10)
  else none

def parseBlock (s : String) : Option (List Nat) :=
  if s.isEmpty then none else s.toList.mapM hexDigit

def strictlyIncreasing : List Nat → Bool
  | a :: b :: t => decide (a < b) && strictlyIncreasing (b :: t)
  | _ => true

def parsePartition (s : String) : Option (List (List Nat)) := do
  let blocks ← (s.splitOn "|").mapM parseBlock
  if !(blocks.all strictlyIncreasing) then none
  if !(strictlyIncreasing (blocks.map fun b => b.headD 0)) then none
  let all := blocks.flatten
  if !((List.range all.length).all fun i => all.contains i) then none
  some blocks

def seedOK (s : String) (nblocks : Nat) : Bool :=
  match s.splitOn ":" with
  | [k, h] =>
    k.length == nblocks && k.toList.all (fun c => '0' ≤ c && c ≤ '6') &&
      !h.isEmpty && h.length ≤ 16 && h.toList.all (fun c => (hexDigit c).isSome)
  | _ => false

/-! Interior aliasing (optional 5th token `p.q.i[,p.q.i…]`): pointer operand `p` (a singleton block) points at the `i`-th
sub-object of its type inside the object of position `q`. In the by-value model the operand's VALUE is that sub-object's value
before the call and the answer is again `same=1 ops=1`; the model side validates the syntax (the same checks as the Go executor):
`p`, `q` one lower-case hex digit below the number of positions, `p ≠ q`, `p` a singleton block, no `p` twice, no `q` that is
itself some `p`, `i` = 1…3 decimal digits. `C19_interior_*` (Props/C19.lean) are the statements about the memory model. -/

def parseInterItem (s : String) : Option (Nat × Nat) :=
  match s.splitOn "." with
  | [a, b, i] =>
    match a.toList, b.toList with
    | [ca], [cb] =>
      if 1 ≤ i.length && i.length ≤ 3 && i.toList.all (fun c => '0' ≤ c && c ≤ '9') then
        match hexDigit ca, hexDigit cb with
        | some p, some q => some (p, q)
        | _, _ => none
      else none
    | _, _ => none
  | _ => none

def noDup : List Nat → Bool
  | [] => true
  | a :: t => !t.contains a && noDup t

def interOK (s : String) (blocks : List (List Nat)) : Bool :=
  match (s.splitOn ",").mapM parseInterItem with
  | none => false
  | some items =>
    let n := blocks.flatten.length
    let ps := items.map Prod.fst
    items.all (fun (p, q) => decide (p < n) && decide (q < n) && p != q && blocks.contains [p] && !ps.contains q) && noDup ps

def handle (args : List String) : String :=
  match args with
  | [_ty, _meth, part, seed] =>
    match parsePartition part with
    | some blocks => if seedOK seed blocks.length then "same=1 ops=1" else "bad-op"
    | none => "bad-op"
  | [_ty, _meth, part, seed, inter] =>
    match parsePartition part with
    | some blocks => if seedOK seed blocks.length && interOK inter blocks then "same=1 ops=1" else "bad-op"
    | none => "bad-op"
  | _ => "bad-op"

end GV.Alias
