/-
Go's two's-complement `int` operations that Lean core does not provide for `Int` (used by the defs that tools/goslp
regenerates from the hash-to-curve code, Gen/H2C/*.lean). Core already has `>>>` (arithmetic shift = floor division by
2^k, as in Go) and `~~~` (`-x-1`, as Go's unary `^`); neither can overflow, so they agree with the 64-bit operations on
every value of a Go `int`.  Core only: no Mathlib import.
-/
namespace GV.GoInt

/-- `a &&& ~~~b` on naturals (the bits of `a &&& b` are bits of `a`) -/
def ldiff (a b : Nat) : Nat := a - (a &&& b)

/-- Go `a | b` on `int` (two's complement, any width): `-[m+1]` is the complement of `m` -/
def or : Int → Int → Int
  | .ofNat m, .ofNat n => .ofNat (m ||| n)
  | .ofNat m, .negSucc n => .negSucc (ldiff n m)
  | .negSucc m, .ofNat n => .negSucc (ldiff m n)
  | .negSucc m, .negSucc n => .negSucc (m &&& n)

example : or 0 0 = 0 ∧ or 0 (-1) = -1 ∧ or (-1) 0 = -1 ∧ or (-1) (-1) = -1 ∧ or 5 (-4) = -3 ∧ or (-6) 3 = -5 := by decide

end GV.GoInt
