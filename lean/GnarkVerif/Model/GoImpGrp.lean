import GnarkVerif.Model.GoImp
/-
GoImpGrp — value vocabulary added to `Model/GoImp.lean` for the GROUP-level targets of the imperative translator
(tools/goslp/imp_grp.go; C03 loops). Core-only.

* fixed-size arrays `[n]T` of points are list VALUES: `arrGet a i d` reads element i (`d` = the Go zero value of T, returned when the
  index is out of range — Go panics there: not modelled), `arrSet a i v` is the array after `a[i] = v` / after a method wrote `a[i]`;
* `x >> n` on `byte` / `uint64` with a signed count: computed on the naturals (a negative count panics in Go: not modelled);
* `(*big.Int).Bytes()` = big-endian bytes of |x| without leading zero (`[]` for 0); `(*big.Int).Bits()` = little-endian 64-bit words of
  |x|, normalised (no zero top word; `[]` for 0) — `big.Word` is `uint` = 64 bits on the platforms considered (as for `uint`).
-/
namespace GV.GoImp

def arrGet {α} (a : List α) (i : Nat) (d : α) : α := a.getD i d
def arrSet {α} (a : List α) (i : Nat) (v : α) : List α := a.set i v

def shrByte (x : UInt8) (n : Int) : UInt8 := UInt8.ofNat (x.toNat >>> n.toNat)
def shr64 (x : Nat) (n : Int) : Nat := x >>> n.toNat

/-- base-`B` digits of `n`, most significant first, no leading zero (`[]` for 0) -/
def natDigitsBE (B : Nat) (n : Nat) : List Nat :=
  if _h : n = 0 ∨ B < 2 then [] else natDigitsBE B (n / B) ++ [n % B]
termination_by n
decreasing_by
  have h1 : n ≠ 0 := fun e => _h (Or.inl e)
  have h2 : 2 ≤ B := Nat.le_of_not_lt (fun e => _h (Or.inr e))
  exact Nat.div_lt_self (Nat.pos_of_ne_zero h1) h2

def bigBytes (x : Int) : Bytes := (natDigitsBE 256 x.natAbs).map UInt8.ofNat
def bigWords (x : Int) : List Nat := (natDigitsBE (2 ^ 64) x.natAbs).reverse

end GV.GoImp
