import GnarkVerif.Model.GoImp
/-
Additional run-time vocabulary of the "imp" mode of tools/goslp for the MiMC digest target (tools/goslp/imp_digest.go, C14).
Core-only. Part of the semantics the translator assigns to its Go subset (trusted, see bin/props.py C14):
* `x[lo:hi]` is the VALUE `subslice x lo hi` (elements lo … hi-1). Go bounds `hi` by the CAPACITY of x, not its length: for
  `len x < hi ≤ cap x` the Go expression exposes elements beyond `len x` — not modelled (here the result is cut at `len x`);
  `lo > hi` / `hi > cap` panic in Go — not modelled.
* `(*[n]byte)(s)` is the value of the first n bytes of s (Go panics when `len s < n`: not modelled).
-/
namespace GV.GoImp

def subslice {α} (x : List α) (lo hi : Int) : List α := (x.take hi.toNat).drop lo.toNat

def arrayPtr {α} (n : Int) (s : List α) : List α := s.take n.toNat

end GV.GoImp
