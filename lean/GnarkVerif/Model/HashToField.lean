import GnarkVerif.Model.Util
import GnarkVerif.Model.Sha256
import GnarkVerif.Model.Alg
import GnarkVerif.Model.Field
import GnarkVerif.Gen.Fields
/-
C13 — hash-to-field / hash-to-curve (RFC 9380).

* `expandMsgXmd` : independent transcription of RFC 9380 §5.3.1 (expand_message_xmd), parametric in the hash `H`
  with output size `b` and input block size `s` (SHA-256: b = 32, s = 64).  Total: no partial operation anywhere;
  the Go code `field/hash.ExpandMsgXmd` must agree on every admissible input (it does not for `lenInBytes < 32`,
  where it panics – finding).
* `hashToField`  : RFC 9380 §5.2 with m = 1 per element, `L = ⌈(⌈log₂ q⌉ + 128)/8⌉`, `OS2IP mod q`; extension fields
  take consecutive elements (that is what the Go code does: `fp.Hash(msg,dst,2*m)`).
* `svdw`         : the straight-line Shallue–van de Woestijne map of RFC 9380 §F.1 exactly as written in
  `ecc/bn254/hash_to_g1.go` (`MapToCurve1`; the same template text is used by grumpkin / secp256k1 / stark-curve,
  stark-curve with `A = 1`), over an `Alg.FOps` dictionary, `inv 0 = 0`.
* line protocol `C13 …` (see `handle`).
-/
namespace GV.HashToField
open GV GV.Alg

inductive Err where
  | len   -- requested output too long (ell > 255, i.e. lenInBytes > 255·b; also > 65535)
  | dst   -- domain separation tag longer than 255 bytes
deriving DecidableEq, Repr

def Err.show : Err → String
  | .len => "err:len"
  | .dst => "err:dst"

def strxor (a b : List UInt8) : List UInt8 := List.zipWith (· ^^^ ·) a b

/-- `b_i = H(strxor(b_0, b_(i-1)) ‖ I2OSP(i,1) ‖ DST_prime)` -/
def nextBlock (H : List UInt8 → List UInt8) (b0 dstPrime : List UInt8) (i : Nat) (prev : List UInt8) : List UInt8 :=
  H (strxor b0 prev ++ [UInt8.ofNat i] ++ dstPrime)

/-- the loop of step 9–10: `n` further blocks `b_i ‖ b_(i+1) ‖ …` given `prev = b_(i-1)` -/
def blockLoop (H : List UInt8 → List UInt8) (b0 dstPrime : List UInt8) : Nat → Nat → List UInt8 → List UInt8
  | 0, _, _ => []
  | n+1, i, prev =>
    let bi := nextBlock H b0 dstPrime i prev
    bi ++ blockLoop H b0 dstPrime n (i+1) bi

def ellOf (b lenInBytes : Nat) : Nat := (lenInBytes + b - 1) / b

/-- RFC 9380 §5.3.1 expand_message_xmd (steps numbered as in the RFC) -/
def expandMsgXmd (H : List UInt8 → List UInt8) (b s : Nat) (msg dst : List UInt8) (lenInBytes : Nat) :
    Except Err (List UInt8) :=
  let ell := ellOf b lenInBytes                                         -- 1
  if ell > 255 ∨ lenInBytes > 65535 then .error .len                    -- 2
  else if dst.length > 255 then .error .dst                             -- 2
  else
    let dstPrime := dst ++ [UInt8.ofNat dst.length]                     -- 3
    let zPad := List.replicate s (0 : UInt8)                            -- 4
    let libStr := natToBE 2 lenInBytes                                  -- 5
    let msgPrime := zPad ++ msg ++ libStr ++ [0] ++ dstPrime            -- 6
    let b0 := H msgPrime                                                -- 7
    let b1 := H (b0 ++ [1] ++ dstPrime)                                 -- 8
    let uniform := b1 ++ blockLoop H b0 dstPrime (ell - 1) 2 b1         -- 9–11
    .ok (uniform.take lenInBytes)                                       -- 12

/-- SHA-256 instance used by every `Hash` function of the library -/
def xmdSha256 (msg dst : List UInt8) (lenInBytes : Nat) : Except Err (List UInt8) :=
  expandMsgXmd Sha256.hash 32 64 msg dst lenInBytes

def bitLen (n : Nat) : Nat := if n = 0 then 0 else n.log2 + 1

/-- `L = ceil((ceil(log2 q) + k)/8)`, k = 128 (q is not a power of two: ⌈log₂ q⌉ = bit length) -/
def lenPerElt (q : Nat) : Nat := (bitLen q + 128 + 7) / 8

/-- `n` consecutive chunks of `L` bytes -/
def chunks (L : Nat) : Nat → List UInt8 → List (List UInt8)
  | 0, _ => []
  | n+1, bs => bs.take L :: chunks L n (bs.drop L)

/-- RFC 9380 §5.2 hash_to_field for a prime field (m = 1) -/
def hashToField (H : List UInt8 → List UInt8) (q : Nat) (msg dst : List UInt8) (count : Nat) :
    Except Err (List Nat) :=
  let L := lenPerElt q
  match expandMsgXmd H 32 64 msg dst (count * L) with
  | .error e => .error e
  | .ok bytes => .ok ((chunks L count bytes).map (fun c => beToNat c % q))

/-! ### Shallue–van de Woestijne map, straight line (RFC 9380 §F.1, `MapToCurve1` of bn254/grumpkin/secp256k1/stark) -/

structure SvdwParams (α : Type) where
  A : α
  B : α
  Z : α
  c1 : α   -- g(Z)
  c2 : α   -- -Z/2
  c3 : α   -- sqrt(-g(Z)·(3Z²+4A)), sgn0 = 0
  c4 : α   -- -4 g(Z)/(3Z²+4A)

/-- `g(x) = (x² + A)·x + B` in the operation order of the Go code -/
def gOf {α : Type} (F : FOps α) (A B x : α) : α := F.add (F.mul (F.add (F.mul x x) A) x) B

/-- the three candidate abscissae `(x1, x2, x3)`; `F.inv 0 = 0` (Go `Inverse`) -/
def svdwCandidates {α : Type} (F : FOps α) (P : SvdwParams α) (u : α) : α × α × α :=
  let tv1 := F.mul (F.mul u u) P.c1          -- 1,2
  let tv2 := F.add F.one tv1                 -- 3
  let tv1 := F.sub F.one tv1                 -- 4
  let tv3 := F.mul tv1 tv2                   -- 5
  let tv3 := F.inv tv3                       -- 6
  let tv4 := F.mul u tv1                     -- 7
  let tv4 := F.mul tv4 tv3                   -- 8
  let tv4 := F.mul tv4 P.c3                  -- 9
  let x1 := F.sub P.c2 tv4                   -- 10
  let x2 := F.add P.c2 tv4                   -- 16
  let x3 := F.mul tv2 tv2                    -- 22
  let x3 := F.mul x3 tv3                     -- 23
  let x3 := F.mul x3 x3                      -- 24
  let x3 := F.mul x3 P.c4                    -- 25
  let x3 := F.add x3 P.Z                     -- 26
  (x1, x2, x3)

/-- selection 27–28: x1 if g(x1) is a square, else x2 if g(x2) is a square, else x3 (0 counts as a square:
`Legendre() >> 1` is 0 for Legendre ∈ {0, 1}) -/
def svdwX {α : Type} (F : FOps α) (isSq : α → Bool) (P : SvdwParams α) (u : α) : α :=
  let c := svdwCandidates F P u
  if isSq (gOf F P.A P.B c.1) then c.1
  else if isSq (gOf F P.A P.B c.2.1) then c.2.1
  else c.2.2

/-- steps 29–35 -/
def svdw {α : Type} (F : FOps α) (isSq : α → Bool) (sqrt : α → α) (sgn0 : α → Bool) (P : SvdwParams α) (u : α) : α × α :=
  let x := svdwX F isSq P u
  let y := sqrt (gOf F P.A P.B x)
  let y := if sgn0 u != sgn0 y then F.neg y else y
  (x, y)

/-! ### simplified SWU, straight line (RFC 9380 §F.2; `MapToCurve1` of bls12-381 – the same text for every SSWU curve) -/

/-- `sqrtRatio n d = (isQR, y)` is the per-curve `G1SqrtRatio` (`y = sqrt(n/d)` if `n/d` is a square, `sqrt(Z·n/d)` otherwise);
`F.mul Z ·` is `G1MulByZ`; the result lies on the isogenous curve `y² = x³ + A·x + B` (before `G1Isogeny`) -/
def sswuTail {α : Type} (F : FOps α) (sqrtRatio : α → α → Bool × α) (sgn0 : α → Bool) (A B : α)
    (u tv1 tv3 tv4 : α) : α × α :=
  let tv4 := F.mul A tv4                                 -- 8
  let tv2 := F.mul tv3 tv3                               -- 9
  let tv6 := F.mul tv4 tv4                               -- 10
  let tv5 := F.mul A tv6                                 -- 11
  let tv2 := F.add tv2 tv5                               -- 12
  let tv2 := F.mul tv2 tv3                               -- 13
  let tv6 := F.mul tv6 tv4                               -- 14
  let tv5 := F.mul B tv6                                 -- 15
  let tv2 := F.add tv2 tv5                               -- 16
  let x := F.mul tv1 tv3                                 -- 17
  let r := sqrtRatio tv2 tv6                             -- 18
  let y := F.mul (F.mul tv1 u) r.2                       -- 19, 20
  let x := if r.1 then tv3 else x                        -- 21
  let y := if r.1 then r.2 else y                        -- 22
  let y := if sgn0 u != sgn0 y then F.neg y else y       -- 23, 24
  (F.mul x (F.inv tv4), y)                               -- 25

def sswu {α : Type} (F : FOps α) (sqrtRatio : α → α → Bool × α) (sgn0 : α → Bool) (A B Z : α) (u : α) : α × α :=
  let tv1 := F.mul u u                                   -- 1
  let tv1 := F.mul Z tv1                                 -- 2
  let tv2 := F.mul tv1 tv1                               -- 3
  let tv2 := F.add tv2 tv1                               -- 4
  let tv3 := F.add tv2 F.one                             -- 5
  let tv3 := F.mul B tv3                                 -- 6
  let tv4 := if F.beq tv2 F.zero then Z else F.neg tv2   -- 7   CMOV(Z, -tv2, tv2 != 0)
  sswuTail F sqrtRatio sgn0 A B u tv1 tv3 tv4            -- 8 … 25

/-! #### executable instance over F_p: constants derived from (A, B) alone by RFC 9380 §H.1 `find_z_svdw` -/

def isSqP (p a : Nat) : Bool := a % p == 0 || powMod a ((p - 1) / 2) p == 1

/-- square root in F_p through the Tonelli–Shanks model of C01 (any root; the sign is fixed afterwards) -/
def sqrtP (fc : Gen.FieldConsts) (a : Nat) : Nat :=
  ((Field.sqrtRegular { q := fc.q, w := fc.word, n := fc.limbs, qInvNeg := fc.qInvNeg } (a % fc.q)).getD 0)

def findZSvdw (p A B : Nat) : Nat → Nat → Option Nat
  | 0, _ => none
  | fuel+1, ctr =>
    let F := fp p
    let g := fun x => gOf F A B x
    let h := fun z => F.mul (F.neg (F.add (F.mul 3 (F.mul z z)) (F.mul 4 A))) (F.inv (F.mul 4 (g z)))
    let ok := fun z => g z != 0 && h z != 0 && isSqP p (h z) &&
      (isSqP p (g z) || isSqP p (g (F.mul (F.neg z) (F.inv 2))))
    if ok (ctr % p) then some (ctr % p)
    else if ok (F.neg ctr) then some (F.neg ctr)
    else findZSvdw p A B fuel (ctr + 1)

def svdwParamsP (fc : Gen.FieldConsts) (A B : Nat) : Option (SvdwParams Nat) :=
  let p := fc.q
  let F := fp p
  match findZSvdw p A B 64 1 with
  | none => none
  | some Z =>
    let gZ := gOf F A B Z
    let h := F.add (F.mul 3 (F.mul Z Z)) (F.mul 4 A)
    let c3 := sqrtP fc (F.neg (F.mul gZ h))
    let c3 := if c3 % 2 == 1 then F.neg c3 else c3
    some { A := A % p, B := B % p, Z := Z, c1 := gZ, c2 := F.mul (F.neg Z) (F.inv 2), c3 := c3,
           c4 := F.mul (F.neg (F.mul 4 gZ)) (F.inv h) }

/-- curves whose `MapToCurve1` is the plain F_p SvdW template: name ↦ (field, A, B) -/
def svdwCurves : List (String × String × Nat × Int) :=
  [("bn254", "bn254_fp", 0, 3), ("grumpkin", "grumpkin_fp", 0, -17), ("secp256k1", "secp256k1_fp", 0, 7),
   ("stark-curve", "stark_curve_fp", 1, 0x6f21413efbe40de150e596d72f7a8c5609ad26c15c915c1f4cdfcb99cee9e89)]

def lookupField (name : String) : Option Gen.FieldConsts := Gen.allFields.find? (·.name == name)

def svdwExec (curve : String) (u : Nat) : String :=
  match svdwCurves.find? (·.1 == curve) with
  | none => "bad-op"
  | some (_, fname, A, B) =>
    match lookupField fname with
    | none => "bad-op"
    | some fc =>
      let p := fc.q
      match svdwParamsP fc A (B % (p : Int)).toNat with
      | none => "no-z"
      | some P =>
        let r := svdw (fp p) (isSqP p) (sqrtP fc) (fun a => a % 2 == 1) P (u % p)
        toHex r.1 ++ ";" ++ toHex r.2

/-! ### validity of a point handed over on the line: on the curve and killed by `r` -/

def parseList (s : String) : List Nat := (s.splitOn ",").map parseHexD
def showList (xs : List Nat) : String := if xs.isEmpty then "-" else ",".intercalate (xs.map toHex)

def parsePt {α : Type} (ofList : List Nat → α) (s : String) : Option (Pt α) :=
  if s == "inf" then some none else
  match s.splitOn ";" with
  | [x, y] => some (some (ofList (parseList x), ofList (parseList y)))
  | _ => none

/-- `1`/`X` : the model never answers `0`, so that a violation can not be masked by an equal answer of the Go predicate -/
def okStr (b : Bool) : String := if b then "1" else "X"

def validity {α : Type} (F : FOps α) (ofList : List Nat → α) (a b : String) (r : Nat) (P : String) : String :=
  let E : Curve α := { F := F, a := ofList (parseList a), b := ofList (parseList b) }
  match parsePt ofList P with
  | none => "bad-pt"
  | some pt => okStr (E.onCurve pt) ++ " " ++ okStr ((E.smul (Int.ofNat r) pt).isNone)

def el2 (l : List Nat) : Nat × Nat := (l.getD 0 0, l.getD 1 0)
def el4 (l : List Nat) : (Nat × Nat) × (Nat × Nat) := ((l.getD 0 0, l.getD 1 0), (l.getD 2 0, l.getD 3 0))

/-- tower descriptor `1` | `2:β` | `4:β:γ0,γ1` (F_p, F_p[u]/(u²−β), F_p²[v]/(v²−γ)); returns (degree, answer) -/
def validityTower (tower : String) (q : Nat) (a b : String) (r : Nat) (P : String) : Option (Nat × String) :=
  match tower.splitOn ":" with
  | ["1"] => some (1, validity (fp q) (fun l => l.getD 0 0) a b r P)
  | ["2", β] => some (2, validity (quad (fp q) (parseHexD β)) el2 a b r P)
  | ["4", β, γ] =>
    let F2 := quad (fp q) (parseHexD β)
    some (4, validity (quad F2 (el2 (parseList γ))) el4 a b r P)
  | _ => none

/-! ### `mapc`: the point `Q = MapToCurve(u)` handed over on the line (before isogeny / cofactor clearing) -/

/-- RFC 9380 §4.1 `sgn0` on the coordinates of an element of `F_p^m` (constant-time formulation, any `m`) -/
def sgn0List (q : Nat) (cs : List Nat) : Bool :=
  (cs.foldl (fun (st : Bool × Bool) c => (st.1 || (st.2 && c % q % 2 == 1), st.2 && c % q == 0)) (false, true)).1

/-- the two candidate abscissae of simplified SWU (RFC 9380 §6.6.2): `x1 = (−B/A)(1 + 1/tv2)` (`B/(Z·A)` when `tv2 = 0`),
`x2 = Z·u²·x1`, computed with the operations of steps 1–8 and 25 of `sswu` -/
def sswuCandidates {α : Type} (F : FOps α) (A B Z u : α) : α × α :=
  let tv1 := F.mul Z (F.mul u u)
  let tv2 := F.add (F.mul tv1 tv1) tv1
  let tv3 := F.mul B (F.add tv2 F.one)
  let tv4 := F.mul A (if F.beq tv2 F.zero then Z else F.neg tv2)
  let x1 := F.mul tv3 (F.inv tv4)
  (x1, F.mul tv1 x1)

def mapcCheck {α : Type} (F : FOps α) (ofList : List Nat → α) (q : Nat) (a b kind z u Q : String) : String :=
  let A := ofList (parseList a); let B := ofList (parseList b)
  match Q.splitOn ";" with
  | [xs, ys] =>
    let x := ofList (parseList xs); let yl := parseList ys; let y := ofList yl
    let on := F.beq (F.mul y y) (gOf F A B x)
    -- RFC: y = CMOV(-y, y, sgn0(u) == sgn0(y)); a point with y = 0 keeps sgn0(y) = 0
    let sgn := yl.all (· % q == 0) || sgn0List q (parseList u) == sgn0List q yl
    let xin := if kind == "sswu" then
        let c := sswuCandidates F A B (ofList (parseList z)) (ofList (parseList u))
        F.beq x c.1 || F.beq x c.2
      else true
    "1 " ++ okStr on ++ " " ++ okStr sgn ++ " " ++ okStr xin
  | _ => "1 X X X"   -- MapToCurve never returns the point at infinity

def mapcTower (tower : String) (q : Nat) (a b kind z u Q : String) : String :=
  match tower.splitOn ":" with
  | ["1"] => mapcCheck (fp q) (fun l => l.getD 0 0) q a b kind z u Q
  | ["2", β] => mapcCheck (quad (fp q) (parseHexD β)) el2 q a b kind z u Q
  | ["4", β, γ] =>
    let F2 := quad (fp q) (parseHexD β)
    mapcCheck (quad F2 (el2 (parseList γ))) el4 q a b kind z u Q
  | _ => "bad-op"

def fieldOfCurve (curve : String) : Option Gen.FieldConsts :=
  lookupField ((curve.replace "-" "_") ++ "_fp")

def showH2F (r : Except Err (List Nat)) : String :=
  match r with
  | .error e => e.show
  | .ok xs => "ok " ++ showList xs

def showXmd (r : Except Err (List UInt8)) : String :=
  match r with
  | .error e => e.show
  | .ok bs => "ok " ++ bytesToHex bs

/-! ### the `hash.Hash` wrapper `ecc/<curve>/{fr,fp}/hash_to_field.New(dst)` as a state machine

`Write(p)` appends a COPY of `p` (by-value semantics: what the caller does to its buffer afterwards is invisible),
`Sum(b)` returns `b ‖ Bytes(Hash(absorbed, dst, 1)[0])` and leaves the state alone, `Reset` forgets the absorbed bytes,
`Size` = `BlockSize` = `Bytes` of the field. `Props/C13.lean` (`C13_hist_*`) proves that every answer of a history depends only
on the concatenation of the bytes written since the last `Reset`. -/

inductive HOp where
  | write (p : List UInt8)
  | sum (b : List UInt8)
  | reset
  | size
  | blockSize
deriving Repr

/-- state = the bytes absorbed so far -/
def hstep (st : List UInt8) : HOp → List UInt8
  | .write p => st ++ p
  | .reset => []
  | _ => st

/-- digest of the wrapper: `Bytes()` (big-endian, `nb` bytes) of the single element `Hash(msg, dst, 1)[0]` -/
def wrapDigest (H : List UInt8 → List UInt8) (q nb : Nat) (dst msg : List UInt8) : Except Err (List UInt8) :=
  match hashToField H q msg dst 1 with
  | .error e => .error e
  | .ok xs => .ok (natToBE nb (xs.headD 0))

/-- answer of one call in state `st`. `Sum` can not return an error through `hash.Hash`: the Go wrapper panics with the
error of `Hash` (only possible for `|dst| > 255`); the harness renders that panic with the error class -/
def hanswer (H : List UInt8 → List UInt8) (q nb : Nat) (dst st : List UInt8) : HOp → String
  | .write p => "ok:" ++ toHex p.length
  | .sum b =>
    match wrapDigest H q nb dst st with
    | .error e => e.show
    | .ok d => bytesToHex (b ++ d)
  | .reset => "ok"
  | .size => toHex nb
  | .blockSize => toHex nb

def hrun (H : List UInt8 → List UInt8) (q nb : Nat) (dst : List UInt8) : List UInt8 → List HOp → List String
  | _, [] => []
  | st, op :: ops => hanswer H q nb dst st op :: hrun H q nb dst (hstep st op) ops

/-- history tokens `W:<hex>[:<spare capacity>]`, `S:<hex>[:<spare capacity>]`, `R`, `Z` (Size), `B` (BlockSize); a suffix
`/mut`, `/scr` describes what the CALLER does with its buffer after the call (harness side) and is not seen by the model,
nor is the content of the spare capacity -/
def parseHOp (tok : String) : Option HOp :=
  match ((tok.splitOn "/").headD "").splitOn ":" with
  | ["W", p] => some (.write (parseBytes p))
  | ["W", p, _] => some (.write (parseBytes p))
  | ["S", b] => some (.sum (parseBytes b))
  | ["S", b, _] => some (.sum (parseBytes b))
  | ["R"] => some .reset
  | ["Z"] => some .size
  | ["B"] => some .blockSize
  | _ => none

def splitOnBar (ws : List String) : List (List String) :=
  let (acc, cur) := ws.foldl (fun (acc, cur) w => if w == "|" then (cur.reverse :: acc, []) else (acc, w :: cur)) ([], [])
  (cur.reverse :: acc).reverse

/-- the 16 generated wrapper packages `ecc/<curve>/{fr,fp}/hash_to_field` (field names of `Gen.allFields`) -/
def wrapperPkgs : List String :=
  ["bn254", "bls12_377", "bls12_381", "bls24_315", "bls24_317", "bw6_633", "bw6_761", "grumpkin"].flatMap
    fun c => [c ++ "_fr", c ++ "_fp"]

def histLine (fc : Gen.FieldConsts) (dst : List UInt8) (toks : List String) : String :=
  " | ".intercalate ((splitOnBar toks).map fun h =>
    match h.mapM parseHOp with
    | none => "bad-op"
    | some ops => " ".intercalate (hrun Sha256.hash fc.q fc.bytes dst [] ops))

/-- line protocol (after the tag `C13`):
* `xmd <msg> <dst> <len>`                       → `ok <bytes>` | `err:len` | `err:dst`
* `h2f <field> <msg> <dst> <count>`             → `ok e0,e1,…` (regular values) | `err:…`
* `map  <curve> <grp> <tower> <p> <a> <b> <r> <u> <P>`         → `1 <onCurve> <[r]P=O> 1` (first flag: determinism, last: sgn0(y)=sgn0(u) on MapToCurve; Go side)
* `mapc <curve> <grp> <tower> <p> <a'> <b'> <svdw|sswu> <Z> <u> <Q>` → `1 <Q on y²=x³+a'x+b'> <sgn0(y)=sgn0(u)> <SSWU: x ∈ {x1,x2}>`
  (Q = MapToCurve(u) before isogeny / cofactor clearing; all three computed by the model on the data of the line)
* `enc|hash <curve> <grp> <tower> <p> <a> <b> <r> <msg> <dst> <P>` → `1 <onCurve> <[r]P=O> ok <u…>` (u recomputed by the model)
* `distinct <curve> <grp> <u1> <u2>`            → `1` (statistical test: the maps are at most 4-to-1)
* `svdw <curve> <u>`                            → exact image `x;y` of the F_p SvdW template
* `rfc <suite> <msg> <dst> <P>`                 → `P` (the published vector is the model answer)
* `rfcu <field> <msg> <dst> <count> <u…>`       → model `h2f` answer, `model-mismatch` if it is not the published one
* `rfcx <msg> <dst> <len> <bytes>`              → model `xmd` answer, `model-mismatch` if it is not the published one
* `h2fhist <field> <dst>[/mut] <tok…> [| <tok…>]…` → per history (fresh `New(dst)`), per call: `ok:<n>` (Write), `<b ‖ digest>` |
  `err:dst` (Sum), `ok` (Reset), `<Bytes>` (Size, BlockSize); see `parseHOp` -/
def handle (args : List String) : String :=
  match args with
  | ["xmd", msg, dst, len] => showXmd (xmdSha256 (parseBytes msg) (parseBytes dst) (parseHexD len))
  | ["h2f", field, msg, dst, count] =>
    match lookupField field with
    | none => "bad-op"
    | some fc => showH2F (hashToField Sha256.hash fc.q (parseBytes msg) (parseBytes dst) (parseHexD count))
  | "h2fhist" :: field :: dst :: toks =>
    if !wrapperPkgs.contains field then "bad-op" else
    match lookupField field with
    | none => "bad-op"
    | some fc => histLine fc (parseBytes ((dst.splitOn "/").headD "")) toks
  | ["map", curve, _grp, tower, p, a, b, r, _u, P] =>
    match fieldOfCurve curve with
    | none => "bad-op"
    | some fc =>
      if fc.q != parseHexD p then "bad-params" else
      match validityTower tower fc.q a b (parseHexD r) P with
      | none => "bad-op"
      | some (_, v) => "1 " ++ v ++ " 1"
  | ["mapc", curve, _grp, tower, p, a, b, kind, z, u, Q] =>
    match fieldOfCurve curve with
    | none => "bad-op"
    | some fc => if fc.q != parseHexD p then "bad-params" else mapcTower tower fc.q a b kind z u Q
  | [kind, curve, _grp, tower, p, a, b, r, msg, dst, P] =>
    if kind != "enc" && kind != "hash" then "bad-op" else
    match fieldOfCurve curve with
    | none => "bad-op"
    | some fc =>
      if fc.q != parseHexD p then "bad-params" else
      match validityTower tower fc.q a b (parseHexD r) P with
      | none => "bad-op"
      | some (m, v) =>
        let count := if kind == "enc" then m else 2 * m
        "1 " ++ v ++ " " ++ showH2F (hashToField Sha256.hash fc.q (parseBytes msg) (parseBytes dst) count)
  | ["distinct", _curve, _grp, _u1, _u2] => "1"
  | ["svdw", curve, u] => svdwExec curve (parseHexD u)
  | ["rfc", _suite, _msg, _dst, P] => P
  | ["rfcu", field, msg, dst, count, want] =>
    match lookupField field with
    | none => "bad-op"
    | some fc =>
      let got := showH2F (hashToField Sha256.hash fc.q (parseBytes msg) (parseBytes dst) (parseHexD count))
      if got == "ok " ++ want then got else "model-mismatch"
  | ["rfcx", msg, dst, len, want] =>
    let got := showXmd (xmdSha256 (parseBytes msg) (parseBytes dst) (parseHexD len))
    if got == "ok " ++ want then got else "model-mismatch"
  | _ => "bad-op"

end GV.HashToField
