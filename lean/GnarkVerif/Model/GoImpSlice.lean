import GnarkVerif.Model.GoImp
/-
Addition to the run-time vocabulary of the "imp" mode (Model/GoImp.lean) for the sub-pass KzgOpen (tools/goslp/impkzg.go):
element types WITHOUT an `Inhabited` instance (abstract scalars `F`, abstract group elements `G`) are read with an explicit
zero value. Core-only. As everywhere in GoImp, an out-of-range read is not a panic: it yields the zero value handed in.
-/
namespace GV.GoImp

/-- `s[i]` with the zero value `z` of the element type -/
def idxD {α} (z : α) (s : List α) (i : Int) : α := s.getD i.toNat z

/-- `uint64(x)` / `uint(x)` of a Go integer (sub-pass PolyEval, tools/goslp/imp_poly.go): the value mod 2^64 -/
def toU64 (x : Int) : Int := x % 2^64
/-- `x >> s` on uint64 values -/
def shrU64 (x s : Int) : Int := x / 2^s.toNat

end GV.GoImp
