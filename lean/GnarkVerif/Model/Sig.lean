import GnarkVerif.Model.Util
import GnarkVerif.Model.Sha256
import GnarkVerif.Model.Alg
import GnarkVerif.Model.Field
/-
C12 — executable model of the signature schemes of gnark-crypto (core-only):

* ECDSA  (`ecc/<curve>/ecdsa/{ecdsa,marshal}.go`, 10 curves): `HashToInt`, `Signature.SetBytes`, `PublicKey.SetBytes`
  (the three flag families of `G1Affine.SetBytes`), `Verify`, `RecoverFrom` / `recoverP`.
* EdDSA  (`ecc/<curve>/twistededwards/eddsa`, `ecc/bls12-381/bandersnatch/eddsa`, 8 instances): point compression
  (`PointAffine.Bytes/SetBytes`, `computeX`), `Signature.SetBytes`, `PublicKey.SetBytes`, `PrivateKey.SetBytes`, `Verify`.

Every decision procedure is a conjunction of *named* checks, so that `Props/C12.lean` can state
`verify = true ↔ (range checks ∧ textbook equation)`.

The group arithmetic is the reference algebra of `Model/Alg.lean` (`Curve`, `TECurve`) over the field dictionary `fpE`
(same as `Alg.fp` except that the inverse is computed by the extended Euclid algorithm instead of Fermat; op `INV`
cross-checks both against `big.Int.ModInverse`).  Every procedure that multiplies points takes the scalar multiplication
`sm` as a parameter: the theorems hold for every `sm` and are read with the textbook affine `smul`; the driver passes the
inversion-free `smulFast` (Jacobian / projective coordinates, one inversion at the end, 50× faster), and ops `ECSM`/`EDSM`
compare `smulFast`, the affine reference and the Go scalar multiplication on boundary and random scalars.
The hash is a parameter: a function from the *sequence of `Write` calls* issued after `Reset` to the `Sum(nil)` output
(`none`‐like error when a `Write` fails, which MiMC does on non-canonical blocks).
-/
namespace GV.Sig
open GV GV.Alg

abbrev Bytes := List UInt8

/-! ### errors -/

inductive Err
  | hashNeeded | notOnCurve | wrongSize | zero | rBig | sBig | short | hash | oracle
  | nonCanonical | subgroup | infEnc | encoding | noSqrt | rRange | sRange | pkInfinity
deriving DecidableEq, Repr

def Err.str : Err → String
  | .hashNeeded => "err:hashneeded" | .notOnCurve => "err:notoncurve" | .wrongSize => "err:wrongsize"
  | .zero => "err:zero" | .rBig => "err:rbig" | .sBig => "err:sbig" | .short => "err:short" | .hash => "err:hash"
  | .oracle => "err:oracle-mismatch" | .nonCanonical => "err:noncanonical" | .subgroup => "err:subgroup"
  | .infEnc => "err:infenc" | .encoding => "err:encoding" | .noSqrt => "err:nosqrt" | .rRange => "err:rrange"
  | .sRange => "err:srange" | .pkInfinity => "err:pkinfinity"

/-! ### hash interface -/

inductive HErr | write | oracle
deriving DecidableEq

/-- a hash, seen from `Verify`: the list of byte strings written after `Reset` ↦ `Sum(nil)` -/
abbrev HashFn := List Bytes → Except HErr Bytes

def sha256Fn : HashFn := fun ws => .ok (Sha256.hash ws.flatten)

/-- big-endian blocks of `bs` bytes -/
def chunks (bs : Nat) : Nat → Bytes → List Bytes
  | 0, _ => []
  | f+1, p => if p.isEmpty then [] else p.take bs :: chunks bs f (p.drop bs)

/-- `mimc.digest.Write` succeeds: a short non-empty input is left-padded to one block; otherwise the input must be a whole
number of blocks, each a canonical field element (< modulus). -/
def mimcWriteOK (bs q : Nat) (p : Bytes) : Bool :=
  if p.length < bs then true
  else p.length % bs == 0 && (chunks bs p.length p).all (fun c => beToNat c < q)

/-- MiMC as an oracle: the Go side recorded the writes `recIn` and the sum `recOut` on this very input -/
def mimcOracle (bs q : Nat) (recIn : List Bytes) (recOut : Bytes) : HashFn := fun ws =>
  if !(ws.all (mimcWriteOK bs q)) then .error .write
  else if ws == recIn then .ok recOut else .error .oracle

def liftH (r : Except HErr Bytes) : Except Err Bytes :=
  match r with
  | .ok b => .ok b
  | .error .write => .error .hash
  | .error .oracle => .error .oracle

/-! ### fast prime-field dictionary -/

/-- extended Euclid on the remainder sequence `r0, r1, r0 % r1, …` with the Bézout cofactors of `a` modulo `q`:
    returns `t` with `t·a ≡ gcd r0 r1 (mod q)` whenever `t0·a ≡ r0`, `t1·a ≡ r1` and `fuel > r1`
    (structural on the fuel, so that the kernel can evaluate it; the remainders decrease, `r1 + 1` is always enough) -/
def xgcd : Nat → Nat → Nat → Int → Int → Int
  | 0, _, _, t0, _ => t0
  | f+1, r0, r1, t0, t1 => if r1 = 0 then t0 else xgcd f r1 (r0 % r1) t1 (t0 - (Int.ofNat (r0 / r1)) * t1)

/-- modular inverse (`0 ↦ 0`), `invE q a · a ≡ 1 (mod q)` for prime `q ∤ a` (`Proofs/Sig.lean: invE_spec`) -/
def invE (q a : Nat) : Nat :=
  if a % q = 0 then 0 else (xgcd (a % q + 1) q (a % q) 0 1 % (Int.ofNat q)).toNat

/-- `Alg.fp q` with the Euclid inverse (agrees with it for prime `q`) -/
def fpE (q : Nat) : FOps Nat := { fp q with inv := invE q }

def lexLargest (q x : Nat) : Bool := x > (q - 1) / 2

/-- square root modulo `q` (Tonelli–Shanks of the C01 model, result reduced) -/
def sqrtF (q a : Nat) : Option Nat := (Field.sqrtRegular { q := q, w := 64, n := 1, qInvNeg := 0 } a).map (· % q)

def bitLen (z : Nat) : Nat := if z = 0 then 0 else z.log2 + 1

/-! ## ECDSA -/

structure ECParams where
  name : String
  p : Nat
  a : Nat
  b : Nat
  gx : Nat
  gy : Nat
  n : Nat            -- group order = fr modulus
  frBytes : Nat
  frBits : Nat
  fpBytes : Nat
  maskKind : Nat     -- 0: no flag bits (secp256k1, raw X‖Y), 2: two flag bits, 3: three flag bits
  infZeroCheck : Bool -- compressed-infinity encoding must be zero elsewhere (every curve; stark-curve since fix 7f7dab1)
  mimcQ : Nat        -- modulus / block size of the MiMC instance the harness pairs with this curve
  mimcSize : Nat
deriving Repr

namespace ECParams
variable (P : ECParams)

/-- the curve over the field dictionary `F` -/
def curveF (F : Nat → FOps Nat) : Curve Nat := { F := F P.p, a := P.a, b := P.b }
def E : Curve Nat := P.curveF fpE
def G : Pt Nat := some (P.gx, P.gy)

/-- Go represents the point at infinity by the affine pair (0,0) -/
def ofAffine (x y : Nat) : Pt Nat := if x = 0 ∧ y = 0 then none else some (x, y)
def toAffine : Pt Nat → Nat × Nat
  | none => (0, 0)
  | some (x, y) => (x, y)

/-! Jacobian coordinates (X:Y:Z) ↦ (X/Z², Y/Z³), `Z = 0` is the point at infinity (textbook dbl-2007-bl / add-2007-bl) -/

def jDouble (F : FOps Nat) (a : Nat) (P : Nat × Nat × Nat) : Nat × Nat × Nat :=
  let (x1, y1, z1) := P
  let xx := F.mul x1 x1; let yy := F.mul y1 y1; let yyyy := F.mul yy yy; let zz := F.mul z1 z1
  let s := F.mul (F.ofNat 4) (F.mul x1 yy)
  let m := F.add (F.mul (F.ofNat 3) xx) (F.mul a (F.mul zz zz))
  let x3 := F.sub (F.mul m m) (F.add s s)
  (x3, F.sub (F.mul m (F.sub s x3)) (F.mul (F.ofNat 8) yyyy), F.mul (F.add y1 y1) z1)

def jAdd (F : FOps Nat) (a : Nat) (P Q : Nat × Nat × Nat) : Nat × Nat × Nat :=
  let (x1, y1, z1) := P; let (x2, y2, z2) := Q
  if F.beq z1 0 then Q else if F.beq z2 0 then P else
  let z1z1 := F.mul z1 z1; let z2z2 := F.mul z2 z2
  let u1 := F.mul x1 z2z2; let u2 := F.mul x2 z1z1
  let s1 := F.mul y1 (F.mul z2 z2z2); let s2 := F.mul y2 (F.mul z1 z1z1)
  let h := F.sub u2 u1; let r := F.sub s2 s1
  if F.beq h 0 then (if F.beq r 0 then jDouble F a P else (1, 1, 0)) else
  let hh := F.mul h h; let hhh := F.mul h hh; let v := F.mul u1 hh
  let x3 := F.sub (F.sub (F.mul r r) hhh) (F.add v v)
  (x3, F.sub (F.mul r (F.sub v x3)) (F.mul s1 hhh), F.mul (F.mul z1 z2) h)

def jSmulNat (F : FOps Nat) (a : Nat) (k : Nat) (P : Nat × Nat × Nat) : Nat × Nat × Nat :=
  let rec go (fuel : Nat) (k : Nat) (B acc : Nat × Nat × Nat) : Nat × Nat × Nat :=
    match fuel with
    | 0 => acc
    | f+1 => if k = 0 then acc else go f (k/2) (jDouble F a B) (if k % 2 = 1 then jAdd F a acc B else acc)
  go (k.log2 + 1) k P (1, 1, 0)

def jToAffine (F : FOps Nat) (P : Nat × Nat × Nat) : Pt Nat :=
  let (x, y, z) := P
  if F.beq z 0 then none else
  let zi := F.inv z; let zi2 := F.mul zi zi
  some (F.mul x zi2, F.mul y (F.mul zi2 zi))

/-- inversion-free scalar multiplication, same double-and-add schedule as `Curve.smulNat` -/
def smulFast (k : Int) (Q : Pt Nat) : Pt Nat :=
  match Q with
  | none => none
  | some (x, y) =>
    let R := jToAffine (fpE P.p) (jSmulNat (fpE P.p) P.a k.natAbs (x, y, 1))
    if k < 0 then P.E.neg R else R

/-- the textbook affine scalar multiplication -/
def smul (k : Int) (Q : Pt Nat) : Pt Nat := P.E.smul k Q

/-- `HashToInt`: the leftmost `frBytes` bytes, then shifted right so that at most `frBits` bits remain
    (the excess is computed from the *bit length of the value*, as the Go code does) -/
def hashToInt (h : Bytes) : Nat :=
  let ret := beToNat (h.take P.frBytes)
  ret >>> (bitLen ret - P.frBits)

/-- SPECIFICATION of the digest-to-integer step (FIPS 186-4 §6.4, SEC 1 §4.1.3: "the leftmost min(N, outlen) bits of Hash(M)"): of the
    (at most `frBytes`) leading bytes, the excess over `frBits` is counted from the LENGTH of the byte string, not from the bit length of
    its value. `hashToInt` (the Go rule, used by Sign and Verify alike) shifts less when the digest starts with zero bits and the order
    has fewer bits than the digest kept: the two differ for about half of all digests on every curve with `frBits < 8·frBytes`
    (recorded known finding; op ECHF compares the Go function with THIS rule). -/
def hashToIntFIPS (h : Bytes) : Nat :=
  let t := h.take P.frBytes
  beToNat t >>> (8 * t.length - P.frBits)

/-- range check of one signature component -/
def inRange (x : Nat) : Bool := decide (0 < x) && decide (x < P.n)

/-- x-coordinate of a point reduced modulo `n` (the Go code computes `X/Z²` with `0⁻¹ = 0`: infinity ↦ 0) -/
def xModN : Pt Nat → Nat
  | none => 0
  | some (x, _) => x % P.n

/-- the point `[e·s⁻¹]G + [r·s⁻¹]Q` -/
def verifyPoint (sm : Int → Pt Nat → Pt Nat) (Q : Pt Nat) (e r s : Nat) : Pt Nat :=
  let sInv := invE P.n s
  let u1 := e * sInv % P.n
  let u2 := r * sInv % P.n
  P.E.add (sm (Int.ofNat u1) P.G) (sm (Int.ofNat u2) Q)

/-- the textbook verification equation -/
def equation (sm : Int → Pt Nat → Pt Nat) (Q : Pt Nat) (e r s : Nat) : Bool := P.xModN (P.verifyPoint sm Q e r s) == r

/-- ECDSA verification on integers: range checks ∧ equation -/
def verifyCore (sm : Int → Pt Nat → Pt Nat) (Q : Pt Nat) (e r s : Nat) : Bool :=
  P.inRange r && P.inRange s && P.equation sm Q e r s

/-- `Signature.SetBytes`: exactly `2·frBytes` bytes, both halves in `[1, n-1]`; returns (consumed, r, s) -/
def sigParse (buf : Bytes) : Except Err (Nat × Nat × Nat) :=
  if buf.length ≠ 2 * P.frBytes then .error .wrongSize else
  let r := beToNat (buf.take P.frBytes)
  let s := beToNat (buf.drop P.frBytes)
  if r = 0 then .error .zero
  else if ¬ r < P.n then .error .rBig
  else if s = 0 then .error .zero
  else if ¬ s < P.n then .error .sBig
  else .ok (2 * P.frBytes, r, s)

def sigBytes (r s : Nat) : Bytes := natToBE P.frBytes r ++ natToBE P.frBytes s

/-- the integer the message is mapped to: `hFunc == nil` means the message *is* the digest -/
def msgInt (H : Option HashFn) (msg : Bytes) : Except Err Nat :=
  match H with
  | none => .ok (P.hashToInt msg)
  | some h => (liftH (h [msg])).map P.hashToInt

/-- `PublicKey.Verify(sigBin, message, hFunc)` -/
def verify (sm : Int → Pt Nat → Pt Nat) (H : Option HashFn) (Q : Pt Nat) (sig msg : Bytes) : Except Err Bool :=
  match P.sigParse sig with
  | .error e => .error e
  | .ok (_, r, s) =>
    match P.msgInt H msg with
    | .error e => .error e
    | .ok e => .ok (P.verifyCore sm Q e r s)

/-- `PublicKey.Verify` with the KEY VALIDATION in front (the public key is an exported field, so a caller can hand in any pair of
    coordinates): the point at infinity is not a public key, and neither is a point off the curve — the group formulas never use the
    coefficient `b`, an off-curve point would be processed on another curve `y² = x³ + ax + b'` (possibly one with small subgroups).
    Only then the signature is parsed and the equation decided. -/
def verifyPK (sm : Int → Pt Nat → Pt Nat) (H : Option HashFn) (Q : Pt Nat) (sig msg : Bytes) : Except Err Bool :=
  if Q.isNone then .error .pkInfinity
  else if !P.E.onCurve Q then .error .notOnCurve
  else P.verify sm H Q sig msg

/-- `PrivateKey.Sign(message, hFunc)` with the nonce `k` as a parameter (the Go code draws it from an AES-CTR stream keyed by
    SHA-512(scalar ‖ entropy ‖ message)): `r = x([k]G) mod n`, `s = k⁻¹(e + r·d) mod n`, output `r ‖ s`, each component in
    exactly `frBytes` big-endian bytes (leading zero bytes included). `r = 0` or `s = 0` makes Go draw another nonce. -/
def sign (sm : Int → Pt Nat → Pt Nat) (H : Option HashFn) (d k : Nat) (msg : Bytes) : Except Err Bytes :=
  match P.msgInt H msg with
  | .error e => .error e
  | .ok e =>
    let r := P.xModN (sm (Int.ofNat k) P.G)
    let s := invE P.n k * (e + r * d) % P.n
    if r = 0 ∨ s = 0 then .error .zero else .ok (P.sigBytes r s)

/-- `PrivateKey.SignForRecover(message, hFunc)` with the nonce `k`: `(v, r, s)` with the recovery information
    `v = (x([k]G) div n)·2 + (y([k]G) mod 2)` -/
def signRecover (sm : Int → Pt Nat → Pt Nat) (H : Option HashFn) (d k : Nat) (msg : Bytes) : Except Err (Nat × Nat × Nat) :=
  match P.msgInt H msg with
  | .error e => .error e
  | .ok e =>
    match sm (Int.ofNat k) P.G with
    | none => .error .zero
    | some (x, y) =>
      let r := x % P.n
      let s := invE P.n k * (e + r * d) % P.n
      if r = 0 ∨ s = 0 then .error .zero else .ok ((x / P.n) * 2 + y % 2, r, s)

/-- `[n]Q = O ∧ Q on the curve` -/
def inSubgroup (sm : Int → Pt Nat → Pt Nat) (Q : Pt Nat) : Bool := P.E.onCurve Q && (sm (Int.ofNat P.n) Q).isNone

/-- number of bytes of an encoded public key -/
def pkSize : Nat := if P.maskKind = 0 then 2 * P.fpBytes else P.fpBytes

def flagMask : Nat := if P.maskKind = 2 then 0xc0 else if P.maskKind = 3 then 0xe0 else 0

inductive Flag | uncompressed | uncompressedInf | compressedSmallest | compressedLargest | compressedInf | invalid
deriving DecidableEq

def flagOf (b0 : Nat) : Flag :=
  if P.maskKind = 2 then
    match b0 / 64 with
    | 0 => .uncompressed | 1 => .compressedInf | 2 => .compressedSmallest | _ => .compressedLargest
  else if P.maskKind = 3 then
    match b0 / 32 with
    | 0 => .uncompressed | 2 => .uncompressedInf | 4 => .compressedSmallest | 5 => .compressedLargest
    | 6 => .compressedInf | _ => .invalid
  else .uncompressed

/-- `PublicKey.SetBytes` = length check, then `G1Affine.SetBytes(buf[:sizePublicKey])`.
    Result: the point (consumed length is `pkSize`, see `pkConsumed`). -/
def pkParse (sm : Int → Pt Nat → Pt Nat) (buf : Bytes) : Except Err (Pt Nat) :=
  if buf.length < P.pkSize then .error .short else
  let buf := buf.take P.pkSize
  if P.maskKind = 0 then
    let x := beToNat (buf.take P.fpBytes)
    let y := beToNat (buf.drop P.fpBytes)
    if ¬ x < P.p then .error .nonCanonical
    else if ¬ y < P.p then .error .nonCanonical
    else
      let Q := ofAffine x y
      if P.inSubgroup sm Q then .ok Q else .error .subgroup
  else
    let b0 := (buf.headD 0).toNat
    match P.flagOf b0 with
    | .invalid => .error .encoding
    | .uncompressed | .uncompressedInf => .error .short   -- needs 2·fpBytes, the key slice has fpBytes
    | .compressedInf =>
      if P.infZeroCheck && !(b0 % (256 - P.flagMask) == 0 && (buf.drop 1).all (· == 0)) then .error .infEnc
      else .ok none
    | f =>
      let x := beToNat buf % 2 ^ (8 * P.fpBytes - P.maskKind)
      if ¬ x < P.p then .error .nonCanonical else
      let F := fpE P.p
      let y2 := F.add (F.add (F.mul x (F.mul x x)) (F.mul P.a x)) P.b
      match sqrtF P.p y2 with
      | none => .error .noSqrt
      | some y0 =>
        let y := if lexLargest P.p y0 == (f == .compressedLargest) then y0 else F.neg y0
        let Q := ofAffine x y
        if P.inSubgroup sm Q then .ok Q else .error .subgroup

/-- `PublicKey.SetBytes`: the point decoder, then the key validation "not the point at infinity" (in the Go code since the
`fix:` commit bef084c; `PrivateKey.SetBytes` calls the point decoder directly, see `skParse`) -/
def pubParse (sm : Int → Pt Nat → Pt Nat) (buf : Bytes) : Except Err (Pt Nat) :=
  match P.pkParse sm buf with
  | .error e => .error e
  | .ok none => .error .pkInfinity
  | .ok Q => .ok Q

/-- the consumed-length report the property demands: the size of the encoding -/
def pkConsumed (sm : Int → Pt Nat → Pt Nat) (buf : Bytes) : Except Err Nat := (P.pubParse sm buf).map (fun _ => P.pkSize)

/-- `PublicKey.Bytes` -/
def pkBytes (Q : Pt Nat) : Bytes :=
  if P.maskKind = 0 then
    let (x, y) := toAffine Q
    natToBE P.fpBytes x ++ natToBE P.fpBytes y
  else
    match Q with
    | none => natToBE P.fpBytes ((if P.maskKind = 2 then 0x40 else 0xc0) * 256 ^ (P.fpBytes - 1))
    | some (x, y) =>
      let flag := if P.maskKind = 2 then (if lexLargest P.p y then 0xc0 else 0x80)
                  else (if lexLargest P.p y then 0xa0 else 0x80)
      natToBE P.fpBytes (x + flag * 256 ^ (P.fpBytes - 1))

/-- `PrivateKey.SetBytes`: public key ‖ scalar (big endian, `frBytes`); returns (consumed, Q, scalar) -/
def skParse (sm : Int → Pt Nat → Pt Nat) (buf : Bytes) : Except Err (Nat × Pt Nat × Nat) :=
  if buf.length < P.pkSize + P.frBytes then .error .short else
  match P.pkParse sm (buf.take P.pkSize) with
  | .error e => .error e
  | .ok Q => .ok (P.pkSize + P.frBytes, Q, beToNat ((buf.drop P.pkSize).take P.frBytes))

/-- `recoverP(v, r)`: the point with abscissa `r + (v>>1 & 1)·n` (reduced mod p) and ordinate of parity `v & 1` -/
def recoverP (v : Nat) (r : Int) : Except Err (Pt Nat) :=
  if r ≥ Int.ofNat P.n then .error .rRange
  else if r ≤ 0 then .error .rRange
  else
    let x := r.toNat + ((v / 2) % 2) * P.n
    let F := fpE P.p
    let y2 := F.add (F.add (powMod x 3 P.p) (F.mul P.a x)) P.b
    match sqrtF P.p y2 with
    | none => .error .noSqrt
    | some y0 =>
      let y := if y0 % 2 = v % 2 then y0 else (P.p - y0) % P.p
      .ok (ofAffine (x % P.p) y)

/-- `PublicKey.RecoverFrom(digest, v, r, s)`:  Q = [-e·r⁻¹]G + [s·r⁻¹]P -/
def recover (sm : Int → Pt Nat → Pt Nat) (digest : Bytes) (v : Nat) (r s : Int) : Except Err (Pt Nat) :=
  if s ≥ Int.ofNat P.n then .error .sRange
  else if s ≤ 0 then .error .sRange
  else
    match P.recoverP v r with
    | .error e => .error e
    | .ok Pt =>
      let z := P.hashToInt digest
      let rInv := invE P.n r.toNat
      let u1 := (P.n - z * rInv % P.n) % P.n
      let u2 := s.toNat * rInv % P.n
      .ok (P.E.add (sm (Int.ofNat u1) P.G) (sm (Int.ofNat u2) Pt))

end ECParams

/-! ## EdDSA on twisted Edwards curves -/

structure EdParams where
  name : String
  q : Nat          -- field of definition (= scalar field of the outer pairing curve)
  a : Nat
  d : Nat
  bx : Nat
  by_ : Nat
  order : Nat      -- ℓ, prime order of the base point
  cofactor : Nat
  size : Nat       -- sizeFr = bytes of a field element
deriving Repr

/-- twisted Edwards addition over an arbitrary field dictionary (`teAdd (fp q)` is `TECurve.add`) -/
def teAdd (F : FOps Nat) (a d : Nat) (P Q : Nat × Nat) : Nat × Nat :=
  let (x1, y1) := P; let (x2, y2) := Q
  let t := F.mul d (F.mul (F.mul x1 x2) (F.mul y1 y2))
  (F.mul (F.add (F.mul x1 y2) (F.mul y1 x2)) (F.inv (F.add 1 t)),
   F.mul (F.sub (F.mul y1 y2) (F.mul a (F.mul x1 x2))) (F.inv (F.sub 1 t)))

def teSmulNat (F : FOps Nat) (a d : Nat) (k : Nat) (P : Nat × Nat) : Nat × Nat :=
  let rec go (fuel : Nat) (k : Nat) (B acc : Nat × Nat) : Nat × Nat :=
    match fuel with
    | 0 => acc
    | f+1 => if k = 0 then acc else go f (k/2) (teAdd F a d B B) (if k % 2 = 1 then teAdd F a d acc B else acc)
  go (k.log2 + 1) k P (0, F.one)

/-! projective coordinates (X:Y:Z) ↦ (X/Z, Y/Z): the same addition law cross-multiplied (add-2008-bbjlp) -/

def tePAdd (F : FOps Nat) (a d : Nat) (P Q : Nat × Nat × Nat) : Nat × Nat × Nat :=
  let (x1, y1, z1) := P; let (x2, y2, z2) := Q
  let A := F.mul z1 z2; let B := F.mul A A
  let C := F.mul x1 x2; let D := F.mul y1 y2
  let E := F.mul d (F.mul C D)
  let Fv := F.sub B E; let G := F.add B E
  (F.mul A (F.mul Fv (F.add (F.mul x1 y2) (F.mul y1 x2))),
   F.mul A (F.mul G (F.sub D (F.mul a C))),
   F.mul Fv G)

def tePSmulNat (F : FOps Nat) (a d : Nat) (k : Nat) (P : Nat × Nat × Nat) : Nat × Nat × Nat :=
  let rec go (fuel : Nat) (k : Nat) (B acc : Nat × Nat × Nat) : Nat × Nat × Nat :=
    match fuel with
    | 0 => acc
    | f+1 => if k = 0 then acc else go f (k/2) (tePAdd F a d B B) (if k % 2 = 1 then tePAdd F a d acc B else acc)
  go (k.log2 + 1) k P (0, F.one, F.one)

namespace EdParams
variable (P : EdParams)

def E : TECurve := { q := P.q, a := P.a, d := P.d }
def B : Nat × Nat := (P.bx, P.by_)
def add (X Y : Nat × Nat) : Nat × Nat := teAdd (fpE P.q) P.a P.d X Y
/-- the textbook affine scalar multiplication -/
def smul (k : Nat) (X : Nat × Nat) : Nat × Nat := teSmulNat (fpE P.q) P.a P.d k X
/-- inversion-free scalar multiplication (one inversion at the end), same double-and-add schedule -/
def smulFast (k : Nat) (X : Nat × Nat) : Nat × Nat :=
  let F := fpE P.q
  let (x, y, z) := tePSmulNat F P.a P.d k (X.1, X.2, F.one)
  let zi := F.inv z
  (F.mul x zi, F.mul y zi)
def onCurve (X : Nat × Nat) : Bool := P.E.onCurve X

/-- (1−y²)/(a−d·y²) with `0⁻¹ = 0` -/
def ratio (y : Nat) : Nat :=
  let F := fpE P.q
  let y2 := F.mul y y
  F.mul (F.sub 1 y2) (F.inv (F.sub P.a (F.mul P.d y2)))

/-- `computeX`: x = √((1−y²)/(a−d·y²)); `Sqrt` leaves its receiver unchanged on a non-square -/
def computeX (sq : Nat → Option Nat) (y : Nat) : Nat :=
  match sq (P.ratio y) with
  | some r => r
  | none => P.ratio y

/-- the integer under the sign bit of a compressed point (little-endian bytes, top bit cleared) -/
def yRaw (buf : Bytes) : Nat := beToNat (buf.take P.size).reverse % 2 ^ (8 * P.size - 1)
def signBit (buf : Bytes) : Bool := beToNat (buf.take P.size).reverse / 2 ^ (8 * P.size - 1) == 1

/-- `PointAffine.SetBytes` refuses an ordinate with no abscissa: `(1−y²)/(a−d·y²)` must be a square ("square root doesn't exist",
    gnark-crypto 5916472). `hasX` is that test; the parsers below answer `noSqrt` when it fails. -/
def hasX (sq : Nat → Option Nat) (buf : Bytes) : Bool := (sq (P.ratio (P.yRaw buf % P.q))).isSome

/-- `PointAffine.SetBytes` (after the length check and the `hasX` test): y is reduced mod q, x recomputed, sign adjusted. -/
def decompress (sq : Nat → Option Nat) (buf : Bytes) : Nat × Nat :=
  let y := P.yRaw buf % P.q
  let x0 := P.computeX sq y
  let x := if P.signBit buf != lexLargest P.q x0 then (fpE P.q).neg x0 else x0
  (x, y)

/-- `PointAffine.Bytes` -/
def compress (X : Nat × Nat) : Bytes :=
  (natToBE P.size (X.2 + (if lexLargest P.q X.1 then 2 ^ (8 * P.size - 1) else 0))).reverse

/-- `Signature.SetBytes`: (consumed, R, S) -/
def sigParse (sq : Nat → Option Nat) (buf : Bytes) : Except Err (Nat × (Nat × Nat) × Nat) :=
  if buf.length ≠ 2 * P.size then .error .wrongSize else
  let y := P.yRaw buf
  let s := beToNat ((buf.drop P.size).take P.size)
  if y = 0 then .error .zero
  else if ¬ y < P.q then .error .rBig
  else if s = 0 then .error .zero
  else if ¬ s < P.order then .error .sBig
  else if ¬ P.hasX sq buf then .error .noSqrt
  else
    let R := P.decompress sq buf
    if ¬ P.onCurve R then .error .notOnCurve
    else .ok (2 * P.size, R, s)

def sigBytes (R : Nat × Nat) (s : Nat) : Bytes := P.compress R ++ natToBE P.size s

/-- `PublicKey.SetBytes`: (consumed, A). The ordinate is *not* required to be canonical by the Go code. -/
def pkParse (sq : Nat → Option Nat) (buf : Bytes) : Except Err (Nat × (Nat × Nat)) :=
  if buf.length < P.size then .error .short else
  if ¬ P.hasX sq buf then .error .noSqrt else
  let A := P.decompress sq buf
  if ¬ P.onCurve A then .error .notOnCurve else .ok (P.size, A)

def skSize : Nat := 2 * P.size + 32

/-- `PrivateKey.SetBytes`: (consumed, A, scalar, randSrc); the property demands consumed = size of the encoding -/
def skParse (sq : Nat → Option Nat) (buf : Bytes) : Except Err (Nat × (Nat × Nat) × Nat × Bytes) :=
  if buf.length < P.skSize then .error .short else
  if ¬ P.hasX sq buf then .error .noSqrt else
  let A := P.decompress sq buf
  if ¬ P.onCurve A then .error .notOnCurve
  else .ok (P.skSize, A, beToNat ((buf.drop P.size).take P.size), (buf.drop (2 * P.size)).take 32)

/-- what is hashed: R.x ‖ R.y ‖ A.x ‖ A.y ‖ M, coordinates as canonical big-endian field elements, five `Write`s -/
def challengeWrites (R A : Nat × Nat) (msg : Bytes) : List Bytes :=
  [natToBE P.size R.1, natToBE P.size R.2, natToBE P.size A.1, natToBE P.size A.2, msg]

def lhs (sm : Nat → Nat × Nat → Nat × Nat) (s : Nat) : Nat × Nat := sm P.cofactor (sm s P.B)
def rhs (sm : Nat → Nat × Nat → Nat × Nat) (A R : Nat × Nat) (h : Nat) : Nat × Nat := sm P.cofactor (P.add (sm h A) R)

/-- the cofactored verification equation `[c·S]B = [c]([H]A + R)` -/
def equation (sm : Nat → Nat × Nat → Nat × Nat) (A R : Nat × Nat) (s h : Nat) : Bool := P.lhs sm s == P.rhs sm A R h

/-- `PublicKey.Verify(sigBin, message, hFunc)` with `pub.A = A` (coordinates reduced) -/
def verify (sm : Nat → Nat × Nat → Nat × Nat) (sq : Nat → Option Nat) (H : Option HashFn) (A : Nat × Nat) (sig msg : Bytes) :
    Except Err Bool :=
  match H with
  | none => .error .hashNeeded
  | some h =>
    if ¬ P.onCurve A then .error .notOnCurve else
    match P.sigParse sq sig with
    | .error e => .error e
    | .ok (_, R, s) =>
      match liftH (h (P.challengeWrites R A msg)) with
      | .error e => .error e
      | .ok hb =>
        let hram := beToNat hb
        if ¬ P.onCurve (P.lhs sm s) then .error .notOnCurve
        else if ¬ P.onCurve (P.rhs sm A R hram) then .error .notOnCurve
        else .ok (P.equation sm A R s hram)

/-- `PrivateKey.Sign(message, hFunc)` with the nonce `r` as a parameter (the Go code takes the first `size` bytes of
    blake2b-512(randSrc ‖ message)): `R = [r]B`, `S = (H(R,A,M)·a + r) mod ℓ`, output `compress R ‖ S` with `S` in exactly
    `size` big-endian bytes (leading zero bytes included) -/
def sign (sm : Nat → Nat × Nat → Nat × Nat) (H : Option HashFn) (A : Nat × Nat) (a r : Nat) (msg : Bytes) : Except Err Bytes :=
  match H with
  | none => .error .hashNeeded
  | some h =>
    let R := sm r P.B
    if ¬ P.onCurve R then .error .notOnCurve else
    match liftH (h (P.challengeWrites R A msg)) with
    | .error e => .error e
    | .ok hb => .ok (P.sigBytes R ((beToNat hb * a + r) % P.order))

end EdParams

end GV.Sig
