/- Driver side of op `C06slp <pkg> <def> <pattern> <hex…>`: evaluates a GENERATED tower def (Gen/Tower/<Pkg>.lean,
   the very def the C06 / C19 theorems are about) on numbers, through the generated tables Gen/Tower/<Pkg>Exec.lean.
   The Go harness (c06slp.go) calls the real method by reflection with the same alias pattern; bin/check diffs.
   This ties the TRANSLATOR (its alias / evaluation-order semantics, its constant extraction) to the Go code. -/
import GnarkVerif.Model.Util
import GnarkVerif.Gen.Tower.Bn254Exec
import GnarkVerif.Gen.Tower.Bls12_381Exec
import GnarkVerif.Gen.Tower.Bls12_377Exec
import GnarkVerif.Gen.Tower.Bls24_315Exec
import GnarkVerif.Gen.Tower.Bls24_317Exec
import GnarkVerif.Gen.Tower.Bw6_761Exec
import GnarkVerif.Gen.Tower.Bw6_633Exec
import GnarkVerif.Gen.Tower.KoalabearExec
import GnarkVerif.Gen.Tower.BabybearExec
import GnarkVerif.Gen.Tower.GoldilocksExec

namespace GV.TowerExec
open GV.Gen.Tower

def execPkg (pkg name : String) (xs : List Nat) : Option (List Nat) :=
  match pkg with
  | "bn254" => bn254.exec name xs
  | "bls12_381" => bls12_381.exec name xs
  | "bls12_377" => bls12_377.exec name xs
  | "bls24_315" => bls24_315.exec name xs
  | "bls24_317" => bls24_317.exec name xs
  | "bw6_761" => bw6_761.exec name xs
  | "bw6_633" => bw6_633.exec name xs
  | "koalabear" => koalabear.exec name xs
  | "babybear" => babybear.exec name xs
  | "goldilocks" => goldilocks.exec name xs
  | _ => none

/-- `<pkg> <def> <pattern> <hex coords…>` (the pattern is only used by the Go side) -/
def handle : List String → String
  | pkg :: name :: _pat :: coords =>
    match execPkg pkg name (coords.map parseHexD) with
    | some out => " ".intercalate (out.map toHex)
    | none => "bad-op"
  | _ => "bad-op"

end GV.TowerExec
