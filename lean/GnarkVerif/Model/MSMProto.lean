/-
C04 — the goroutine / channel protocol of the multi-exponentiation (core-only).

`tools/goslp/proto.go` re-extracts, on every run, the ORDERED skeleton of the concurrency-relevant statements of
`_innerMsmG1/G2`, `msmReduceChunkG1Affine/G2Affine`, `processChunkG{1,2}Jacobian` and `processChunkG{1,2}BatchAffine`
of every curve package into `Gen/MSMProto.lean` (terms of the type `Sk` below; all pure computation between channel
events is dropped).  This file gives

* the skeleton language (`Op`, `Cond`, `Loop`, `Sk`, `Fn`),
* its unrolling into the event trace of one goroutine for given run-time parameters (`Env`: NbTasks, nbChunks, which
  chunks are overweight, whether the semaphore is used) with Go's `defer` rule (function exit, LIFO),
* an operational semantics of the main goroutine + the goroutines it starts over buffered channels with `close`
  (`step`: receive on an empty open channel blocks, send on a full channel blocks, send on / close of a closed channel
  is the panic state),
* the decidable well-formedness predicates `WorkerOK` / `ReduceOK` / `MainOK` on skeletons.

The theorems are in `Props/C04_proto.lean` (lemmas: `Proofs/MSMProto.lean`).
-/
namespace GV.MSMProto

/-! ## the skeleton language -/

/-- capacity argument of `make(chan T, cap)` -/
inductive Cap
  | lit (n : Nat)                 -- integer literal
  | lin (a b c : Nat)             -- a·config.NbTasks + b·nbChunks + c  (parsed form of e.g. `config.NbTasks+int(nbChunks)`)
  | text                          -- anything else (the Go text is kept next to it)
  deriving DecidableEq, Repr

inductive Op
  | recv (ch : String)                                   -- `<-ch`, `x := <-ch`
  | send (ch : String)                                   -- `ch <- v`
  | close (ch : String)                                  -- `close(ch)`
  | make (ch : String) (cap : Cap) (capText : String)    -- `ch = make(chan T, cap)`
  | go (callees : List String) (chans : List String)     -- `go f(…)`: the functions `f` can denote, its channel arguments
  | call (fn : String) (chans : List String)             -- call of a function that has its own skeleton
  | ret                                                  -- `return`
  deriving DecidableEq, Repr

inductive Cond
  | semNonNil                     -- `sem != nil`
  | other (text : String)         -- any other condition (text of the Go expression)
  deriving DecidableEq, Repr

inductive Loop
  | up (bound : String)           -- `for v := 0; v < bound; v++`
  | down (start : String)         -- `for v := start; v >= 0; v--`
  deriving DecidableEq, Repr

/-- a statement list (cons cells): the concurrency-relevant statements of a function body, in source order -/
inductive Sk
  | nil
  | op (o : Op) (rest : Sk)
  | ifS (c : Cond) (thn els rest : Sk)       -- `if c { thn } else { els }; rest`
  | forS (l : Loop) (body rest : Sk)
  | deferS (body rest : Sk)                  -- `defer …`: runs at function exit, LIFO
  | goLit (body rest : Sk)                   -- `go func(…) { body }(…)` (parameters substituted by the arguments)
  deriving DecidableEq, Repr

/-- one extracted function: name, its channel parameters in order, the skeleton of its body -/
structure Fn where
  name : String
  chanParams : List String
  body : Sk
  deriving DecidableEq, Repr

/-! ## channels, events, goroutine programs -/

inductive Ch
  | sem
  | chunk (j : Nat)               -- chChunks[j]
  | split (j : Nat)               -- the chSplit of chunk j
  | other (name : String)         -- a channel expression the unrolling does not know (never in a well-formed skeleton)
  deriving DecidableEq, Repr

inductive Ev
  | recv (c : Ch) | send (c : Ch) | close (c : Ch)
  deriving DecidableEq, Repr

/-- events of the main goroutine: a channel event or the start of a goroutine with the given program -/
inductive MEv
  | ev (e : Ev)
  | go (p : List Ev)
  deriving DecidableEq, Repr

/-- run-time parameters of one `_innerMsm` call -/
structure Env where
  K : Nat                          -- config.NbTasks
  nb : Nat                         -- nbChunks
  thr : Bool                       -- config.NbTasks < runtime.NumCPU(): the semaphore exists (`sem != nil`)
  split : Nat → Bool               -- chunkStats[j].weight >= 115
  j : Nat                          -- value of the enclosing loop variable
  res : Ch                         -- what the parameter `chRes` is bound to
  worker : Nat → Ch → List Ev      -- program of the chunk processor started for chunk j with result channel c
  calls : String → List MEv        -- trace of a called function that has its own skeleton (msmReduceChunk…)

def chanOf (env : Env) (s : String) : Ch :=
  if s = "sem" then .sem
  else if s = "chRes" then env.res
  else if s = "chSplit" then .split env.j
  else if s = "chChunks[j]" then .chunk env.j
  else if s = "chChunks[len(chChunks) - 1]" then .chunk (env.nb - 1)
  else .other s

def condVal (env : Env) : Cond → Bool
  | .semNonNil => env.thr
  | .other t => if t = "config.NbTasks < runtime.NumCPU()" then env.thr else env.split env.j

/-- iterations of a loop: the values of the loop variable, in order -/
def loopVals (env : Env) : Loop → List Nat
  | .up b => if b = "config.NbTasks" then List.range env.K
             else if b = "len(chChunks)" then List.range env.nb else []
  | .down s => if s = "int(nbChunks - 1)" then (List.range env.nb).reverse
               else if s = "len(chChunks) - 2" then (List.range (env.nb - 1)).reverse else []

def MEv.plain : MEv → List Ev
  | .ev e => [e]
  | .go _ => []

/-- `(events in program order, deferred events in the order they run at function exit)`.  `fuel` bounds the loop unrolling
only syntactically (structural recursion on the skeleton). -/
def unroll (env : Env) : Sk → List MEv × List MEv
  | .nil => ([], [])
  | .op o rest =>
      match o with
      | .ret => ([], [])
      | .recv c => let r := unroll env rest; (.ev (.recv (chanOf env c)) :: r.1, r.2)
      | .send c => let r := unroll env rest; (.ev (.send (chanOf env c)) :: r.1, r.2)
      | .close c => let r := unroll env rest; (.ev (.close (chanOf env c)) :: r.1, r.2)
      | .make _ _ _ => unroll env rest
      | .go _ chans => let r := unroll env rest; (.go (env.worker env.j (chanOf env (chans.headD ""))) :: r.1, r.2)
      | .call fn _ => let r := unroll env rest; (env.calls fn ++ r.1, r.2)
  | .ifS c thn els rest =>
      let a := if condVal env c then unroll env thn else unroll env els
      let r := unroll env rest
      (a.1 ++ r.1, r.2 ++ a.2)
  | .forS l body rest =>
      let a := (loopVals env l).map (fun v => unroll { env with j := v } body)
      let r := unroll env rest
      (a.flatMap (·.1) ++ r.1, r.2 ++ (a.reverse.flatMap (·.2)))
  | .deferS body rest =>
      let b := unroll env body
      let r := unroll env rest
      (r.1, r.2 ++ (b.1 ++ b.2))
  | .goLit body rest =>
      let b := unroll env body
      let r := unroll env rest
      (.go ((b.1 ++ b.2).flatMap MEv.plain) :: r.1, r.2)

/-- the complete event trace of one activation: body, then the deferred statements -/
def trace (env : Env) (s : Sk) : List MEv := (unroll env s).1 ++ (unroll env s).2

def dummyEnv : Env := ⟨0, 0, true, fun _ => false, 0, .other "chRes", fun _ _ => [], fun _ => []⟩

/-- the formal parameter `chRes` of a chunk processor -/
def chResParam : Ch := .other "chRes"

/-- trace of a chunk processor over its formal parameters `sem`, `chRes`; `thr` = (`sem != nil`) -/
def workerTrace (f : Fn) (thr : Bool) : List Ev :=
  (trace { dummyEnv with thr := thr, res := chResParam } f.body).flatMap MEv.plain

/-- parameter passing: the formal `chRes` is replaced by the channel of the `go` statement -/
def Ch.bind (d : Ch) (c : Ch) : Ch := if d = chResParam then c else d
def Ev.bind (c : Ch) : Ev → Ev
  | .recv d => .recv (d.bind c)
  | .send d => .send (d.bind c)
  | .close d => .close (d.bind c)

/-! ## well-formedness predicates (decidable: `Bool`) -/

/-- a `defer` (anywhere) whose body contains a channel operation -/
def hasDeferredOp : Sk → Bool
  | .nil => false
  | .op _ rest => hasDeferredOp rest
  | .ifS _ t e r => hasDeferredOp t || hasDeferredOp e || hasDeferredOp r
  | .forS _ b r => hasDeferredOp b || hasDeferredOp r
  | .deferS b r => (b != .nil) || hasDeferredOp r
  | .goLit b r => hasDeferredOp b || hasDeferredOp r

/-- goroutine starts, calls, loops: none of them may occur in a chunk processor -/
def onlyChanOps : Sk → Bool
  | .nil => true
  | .op o rest => (match o with | .recv _ => true | .send _ => true | _ => false) && onlyChanOps rest
  | .ifS c t e r => (c == .semNonNil) && onlyChanOps t && onlyChanOps e && onlyChanOps r
  | .deferS b r => onlyChanOps b && onlyChanOps r
  | _ => false

/-- A chunk processor `f(…, chRes, …, sem)`:
* its only concurrency-relevant statements are sends / receives on its parameters `chRes`, `sem`, guarded by `sem != nil` only;
* with `sem != nil` the acquire `<-sem` is the FIRST event, there is exactly ONE release `sem <- …`, it comes BEFORE the single
  result send `chRes <- …`, and there is no event after the result send  (i.e. the trace is acquire, release, result);
* with `sem == nil` the trace is the result send alone;
* no channel operation is deferred. -/
def WorkerOK (f : Fn) : Bool :=
  f.chanParams == ["chRes", "sem"] && onlyChanOps f.body && !hasDeferredOp f.body &&
  workerTrace f true == [.recv .sem, .send .sem, .send chResParam] &&
  workerTrace f false == [.send chResParam]

/-- `msmReduceChunk…(p, c, chChunks)`: receives `chChunks[len-1]`, then `chChunks[j]` for `j = len-2 … 0`: every result channel
exactly once, nothing else. -/
def canonReduce : Sk :=
  .op (.recv "chChunks[len(chChunks) - 1]") (.forS (.down "len(chChunks) - 2") (.op (.recv "chChunks[j]") .nil) (.op .ret .nil))

def ReduceOK (f : Fn) : Bool := f.chanParams == ["chChunks"] && f.body == canonReduce

/-- the shape of `_innerMsm…`; the parts that may vary are arguments: the parsed capacity of `sem` and its text, the
functions `processChunk` can denote, the name of the reduction. -/
def canonMain (cap : Cap) (capText : String) (callees : List String) (reduce : String) : Sk :=
  .forS (.up "len(chChunks)") (.op (.make "chChunks[i]" (.lit 1) "1") .nil) <|
  .ifS (.other "config.NbTasks < runtime.NumCPU()")
    (.op (.make "sem" cap capText) <|
     .forS (.up "config.NbTasks") (.op (.send "sem") .nil) <|
     .deferS (.op (.close "sem") .nil) .nil) .nil <|
  .forS (.down "int(nbChunks - 1)")
    (.ifS (.other "chunkStats[j].weight >= 115")
      (.op (.make "chSplit" (.lit 2) "2") <|
       .ifS .semNonNil (.op (.send "sem") .nil) .nil <|
       .op (.go callees ["chSplit", "sem"]) <|
       .op (.go callees ["chSplit", "sem"]) <|
       .goLit (.op (.recv "chSplit") <| .op (.recv "chSplit") <| .op (.close "chSplit") <| .op (.send "chChunks[j]") .nil) .nil)
      (.op (.go callees ["chChunks[j]", "sem"]) .nil) .nil) <|
  .op (.call reduce ["chChunks"]) <| .op .ret .nil

def firstSemMake : Sk → Option (Cap × String)
  | .nil => none
  | .op (.make "sem" cap t) _ => some (cap, t)
  | .op _ r => firstSemMake r
  | .ifS _ t e r => (firstSemMake t).orElse fun _ => (firstSemMake e).orElse fun _ => firstSemMake r
  | .forS _ b r => (firstSemMake b).orElse fun _ => firstSemMake r
  | .deferS b r => (firstSemMake b).orElse fun _ => firstSemMake r
  | .goLit b r => (firstSemMake b).orElse fun _ => firstSemMake r

def firstGo : Sk → Option (List String)
  | .nil => none
  | .op (.go cs _) _ => some cs
  | .op _ r => firstGo r
  | .ifS _ t e r => (firstGo t).orElse fun _ => (firstGo e).orElse fun _ => firstGo r
  | .forS _ b r => (firstGo b).orElse fun _ => firstGo r
  | .deferS b r => (firstGo b).orElse fun _ => firstGo r
  | .goLit b r => (firstGo b).orElse fun _ => firstGo r

def firstCall : Sk → Option String
  | .nil => none
  | .op (.call f _) _ => some f
  | .op _ r => firstCall r
  | .ifS _ t e r => (firstCall t).orElse fun _ => (firstCall e).orElse fun _ => firstCall r
  | .forS _ b r => (firstCall b).orElse fun _ => firstCall r
  | .deferS b r => (firstCall b).orElse fun _ => firstCall r
  | .goLit b r => (firstCall b).orElse fun _ => firstCall r

/-- capacity of `sem` for given NbTasks / nbChunks -/
def Cap.eval (K nb : Nat) : Cap → Nat
  | .lit n => n
  | .lin a b c => a * K + b * nb + c
  | .text => 0

/-- `cap ≥ NbTasks + nbChunks` for all values, read off the parsed form -/
def Cap.enough : Cap → Bool
  | .lin a b _ => decide (1 ≤ a) && decide (1 ≤ b)
  | _ => false

/-- `_innerMsm…` against the chunk processors `ws` and reductions `rs` of its package:
* `sem` is made with capacity ≥ NbTasks + nbChunks, pre-filled with exactly NbTasks tokens, `close(sem)` is deferred (so it runs
  after the reduction has returned), all under `config.NbTasks < runtime.NumCPU()`;
* per chunk, in descending order: either one chunk processor on `chChunks[j]`, or (overweight) ONE extra token when `sem != nil`,
  two chunk processors on a fresh `chSplit` of capacity 2 and one collector goroutine that receives twice, closes `chSplit`
  and sends on `chChunks[j]`; every `chChunks[i]` has capacity 1;
* the function then returns the reduction, which receives every `chChunks[j]` exactly once (`ReduceOK`);
* every function `processChunk` can denote is a chunk processor of the package that satisfies `WorkerOK`. -/
def MainOK (ws rs : List Fn) (f : Fn) : Bool :=
  match firstSemMake f.body, firstGo f.body, firstCall f.body with
  | some (cap, t), some cs, some r =>
      f.chanParams == [] && f.body == canonMain cap t cs r && cap.enough && !cs.isEmpty &&
      cs.all (fun n => ws.any (fun w => w.name == n) && ws.all (fun w => w.name != n || WorkerOK w)) &&
      (match rs.find? (fun g => g.name == r) with | some g => ReduceOK g | none => false)
  | _, _, _ => false

/-! ## operational semantics -/

structure State where
  buf : Ch → Nat                   -- number of buffered values
  closed : Ch → Bool
  main : List MEv                  -- what the main goroutine still has to do
  gs : List (List Ev)              -- the started goroutines: what each still has to do
  panic : Bool

/-- one channel event of a goroutine: `none` = blocked -/
def execEv (cap : Ch → Nat) (s : State) : Ev → Option State
  | .recv c =>
      if 0 < s.buf c then some { s with buf := fun d => if d = c then s.buf c - 1 else s.buf d }
      else if s.closed c then some s            -- a closed empty channel yields the zero value
      else none
  | .send c =>
      if s.closed c then some { s with panic := true }      -- "send on closed channel"
      else if s.buf c < cap c then some { s with buf := fun d => if d = c then s.buf c + 1 else s.buf d }
      else none
  | .close c =>
      if s.closed c then some { s with panic := true }      -- "close of closed channel"
      else some { s with closed := fun d => if d = c then true else s.closed d }

/-- goroutine `i` (0 = main, `i+1` = the i-th started goroutine) makes one step; `none` = finished, blocked, or the
program has panicked already -/
def step (cap : Ch → Nat) (s : State) (i : Nat) : Option State :=
  if s.panic then none else
  match i with
  | 0 =>
      match s.main with
      | [] => none
      | .go p :: m => some { s with main := m, gs := s.gs ++ [p] }
      | .ev e :: m => (execEv cap s e).map fun s' => { s' with main := m }
  | k + 1 =>
      match s.gs[k]? with
      | some (e :: g) => (execEv cap s e).map fun s' => { s' with gs := s'.gs.set k g }
      | _ => none

def run (cap : Ch → Nat) : State → List Nat → Option State
  | s, [] => some s
  | s, i :: is => (step cap s i).bind fun s' => run cap s' is

inductive Reachable (cap : Ch → Nat) (s0 : State) : State → Prop
  | init : Reachable cap s0 s0
  | step {s s' : State} (i : Nat) : Reachable cap s0 s → step cap s i = some s' → Reachable cap s0 s'

def State.final (s : State) : Prop := s.main = [] ∧ ∀ g ∈ s.gs, g = []

def initState (main : List MEv) : State := ⟨fun _ => 0, fun _ => false, main, [], false⟩

/-- capacities: `sem` from the skeleton, `chChunks[i]` 1, `chSplit` 2 (the literals `canonMain` fixes) -/
def capOf (semCap : Nat) : Ch → Nat
  | .sem => semCap
  | .chunk _ => 1
  | .split _ => 2
  | .other _ => 0

/-- the main trace of `_innerMsm` `f` with reductions `rs`, chunk processors chosen by `pick` -/
def mainTrace (f : Fn) (rs : List Fn) (K nb : Nat) (thr : Bool) (split : Nat → Bool) (pick : Nat → Fn) : List MEv :=
  let env0 : Env := { dummyEnv with K := K, nb := nb, thr := thr, split := split,
                                    worker := fun j c => (workerTrace (pick j) thr).map (Ev.bind c) }
  let env : Env := { env0 with calls := fun n => match rs.find? (fun g => g.name == n) with
                                                 | some g => trace env0 g.body
                                                 | none => [] }
  trace env f.body

def semCapOf (f : Fn) (K nb : Nat) : Nat :=
  match firstSemMake f.body with
  | some (cap, _) => cap.eval K nb
  | none => 0

end GV.MSMProto
