import GnarkVerif.Model.Field
import GnarkVerif.Gen.Fields
/-
Line protocol of the field model: `C01 <field> <op> <args…>`; elements are raw limb values (Montgomery form).
The parameters of `<field>` come from Gen/Fields.lean, i.e. from the constants extracted from /repo on this run.
-/
namespace GV.FieldOps
open GV GV.Field

def paramsOf (fc : Gen.FieldConsts) : Params := { q := fc.q, w := fc.word, n := fc.limbs, qInvNeg := fc.qInvNeg }

def lookup (name : String) : Option Gen.FieldConsts := Gen.allFields.find? (·.name == name)

def parseList (s : String) : List Nat := if s == "-" then [] else (s.splitOn ",").map parseHexD
def showList (xs : List Nat) : String := if xs.isEmpty then "-" else ",".intercalate (xs.map toHex)

def bitLen (z : Nat) : Nat := if z = 0 then 0 else z.log2 + 1

/-- the vector routines are documented to panic when the operand lengths differ (every code path) -/
def lenGuard (a : List String) (r : String) : String :=
  if (parseList (a[0]?.getD "-")).length = (parseList (a[1]?.getD "-")).length then r else "panic"

def handleOp (p : Params) (op : String) (a : List String) : String :=
  let x := (a[0]?.map parseHexD).getD 0
  let y := (a[1]?.map parseHexD).getD 0
  match op with
  | "add" => toHex (add p x y)
  | "sub" => toHex (sub p x y)
  | "mul" => toHex (mul p x y)
  | "square" => toHex (square p x)
  | "neg" => toHex (neg p x)
  | "double" => toHex (double p x)
  | "halve" => toHex (halve p x)
  | "inv" => toHex (inv p x)
  | "div" => toHex (div p x y)
  | "mulby3" => toHex (mulBySmall p 3 x)
  | "mulby5" => toHex (mulBySmall p 5 x)
  | "mulby13" => toHex (mulBySmall p 13 x)
  | "butterfly" => toHex (add p x y) ++ " " ++ toHex (sub p x y)
  | "exp" => toHex (exp p x (parseInt (a[1]?.getD "0")))
  | "sqrt" =>
    match sqrtRegular p (toRegular p x) with
    | none => "none"
    | some r => "some " ++ toHex (if r ≠ 0 ∧ p.q - r < r then p.q - r else r)
  | "legendre" => intToHex (legendre p x)
  | "cmp" => intToHex (cmp p x y)
  | "lexlargest" => boolStr (lexLargest p x)
  | "iszero" => boolStr (x == 0)
  | "isone" => boolStr (x == one p)
  | "equal" => boolStr (x == y)
  | "select" =>
    let c := parseInt (a[0]?.getD "0")
    toHex (if c = 0 then y else (a[2]?.map parseHexD).getD 0)
  | "bitlen" => toHex (bitLen x)
  | "one" => toHex (one p)
  | "batchinv" => showList (batchInv p (parseList (a[0]?.getD "-")))
  | "vadd" => lenGuard a (showList (vecAdd p (parseList (a[0]?.getD "-")) (parseList (a[1]?.getD "-"))))
  | "vsub" => lenGuard a (showList (vecSub p (parseList (a[0]?.getD "-")) (parseList (a[1]?.getD "-"))))
  | "vmul" => lenGuard a (showList (vecMul p (parseList (a[0]?.getD "-")) (parseList (a[1]?.getD "-"))))
  | "valign" =>
    let va := parseList (a[2]?.getD "-"); let vb := parseList (a[3]?.getD "-")
    showList (match a[1]?.getD "" with
      | "vadd" => vecAdd p va vb
      | "vsub" => vecSub p va vb
      | _ => vecMul p va vb)
  | "vscalarmul" => showList (vecScalarMul p (parseList (a[0]?.getD "-")) y)
  | "vsum" => toHex (vecSum p (parseList (a[0]?.getD "-")))
  | "vinner" => lenGuard a <| toHex (vecInner p (parseList (a[0]?.getD "-")) (parseList (a[1]?.getD "-")))
  | _ => "bad-op"

def handle (args : List String) : String :=
  match args with
  | f :: op :: rest =>
    match lookup f with
    | some fc => handleOp (paramsOf fc) op rest
    | none => "bad-op"
  | _ => "bad-op"

end GV.FieldOps
