/-
Core-only utilities shared by the executable models and the line-protocol driver.
No Mathlib import anywhere under Model/ : the driver is compiled as a `lean_exe`.
-/
namespace GV

def hexDigit (c : Char) : Option Nat :=
  if '0' ≤ c ∧ c ≤ '9' then some (c.toNat - '0'.toNat)
  else if 'a' ≤ c ∧ c ≤ 'f' then some (c.toNat - 'a'.toNat + 10)
  else none

/-- lower-case hex, no prefix; the empty string is 0 -/
def parseHex (s : String) : Option Nat :=
  s.foldl (fun acc c => match acc, hexDigit c with
    | some a, some d => some (a*16+d)
    | _, _ => none) (some 0)

def parseHexD (s : String) : Nat := (parseHex s).getD 0

def toHex (n : Nat) : String := String.ofList (Nat.toDigits 16 n)

/-- signed integers travel as `-<hex>` or `<hex>` -/
def parseInt (s : String) : Int :=
  if s.startsWith "-" then - (Int.ofNat (parseHexD (s.drop 1).toString)) else Int.ofNat (parseHexD s)

def intToHex (i : Int) : String :=
  if i < 0 then "-" ++ toHex i.natAbs else toHex i.natAbs

def hexNibble (n : Nat) : Char :=
  if n < 10 then Char.ofNat (n + 48) else Char.ofNat (n - 10 + 97)

def byteToHex (b : UInt8) : String :=
  String.ofList [hexNibble (b.toNat / 16), hexNibble (b.toNat % 16)]

/-- bytes travel as an even-length hex string; the empty byte string is written `-` -/
def bytesToHex (bs : List UInt8) : String :=
  if bs.isEmpty then "-" else String.join (bs.map byteToHex)

partial def parseBytesAux : List Char → List UInt8 → List UInt8
  | a :: b :: rest, acc =>
    match hexDigit a, hexDigit b with
    | some x, some y => parseBytesAux rest (UInt8.ofNat (x*16+y) :: acc)
    | _, _ => acc.reverse
  | _, acc => acc.reverse

def parseBytes (s : String) : List UInt8 :=
  if s == "-" then [] else parseBytesAux s.toList []

/-- big-endian bytes → Nat -/
def beToNat (bs : List UInt8) : Nat := bs.foldl (fun a b => a*256 + b.toNat) 0

/-- Nat → exactly `len` big-endian bytes (truncating high part) -/
def natToBE (len : Nat) (n : Nat) : List UInt8 :=
  (List.range len).reverse.map (fun i => UInt8.ofNat ((n / 256^i) % 256))

def natToLE (len : Nat) (n : Nat) : List UInt8 :=
  (List.range len).map (fun i => UInt8.ofNat ((n / 256^i) % 256))

def words (s : String) : List String :=
  (s.trimAscii.toString.splitOn " ").filter (· ≠ "")

def boolStr (b : Bool) : String := if b then "1" else "0"

/-- modular exponentiation on Nat (square and multiply, structural on fuel = bit length) -/
def powMod (b e m : Nat) : Nat :=
  if m ≤ 1 then 0 else
  let rec go (fuel : Nat) (b e acc : Nat) : Nat :=
    match fuel with
    | 0 => acc
    | fuel+1 =>
      if e = 0 then acc else
      let acc := if e % 2 = 1 then acc * b % m else acc
      go fuel (b*b % m) (e/2) acc
  go (e.log2 + 1) (b % m) e 1

def invMod (a p : Nat) : Nat := powMod a (p-2) p

end GV
