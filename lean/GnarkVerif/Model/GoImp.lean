/-
Run-time vocabulary of the "imp" mode of tools/goslp (tools/goslp/imp.go): the Go values that small imperative,
stateful Go functions (fiat-shamir/transcript.go, …) are translated to.  Core-only, executable.

This file IS the semantics the translator assigns to its Go subset (trusted, see bin/props.py C15):
* `int` is `Int` (no 64-bit wrap-around is modelled);
* `string` is a byte sequence (`GoString`), `[]byte(s)` is the identity on the bytes;
* `[]T` is a VALUE (`List T`): `make([]byte, n)` = n zero bytes, `copy(dst, src)` overwrites the first
  `min(len dst, len src)` elements, `append(s, x)` = `s ++ [x]`, `s[:]` = `s`, `len`; nil and empty slices are
  not distinguished (the translator refuses `s == nil` on slices and element writes `s[i] = x`);
* `map[string]V` is an association list with at most one entry per key: `m[k] = v` replaces the entry of `k` in
  place or adds one at the end, `v, ok := m[k]` returns a COPY of the stored value (zero value, false when absent).
  The iteration order of a Go map is not modelled (the translator refuses `range` over a map);
* `*S` stored in a struct field is `Option S` (nil = none): the translator only accepts `&x` of a local that is
  never assigned afterwards and refuses every write through such a pointer, so the pointee is immutable and a copy
  of its value is indistinguishable from the pointer;
* `hash.Hash` is an abstract object whose state is the list of `Write` calls absorbed since the last `Reset`; it is
  parameterised, exactly like Model/Transcript.lean, by `W : Bytes → Option Bytes` (what one `Write p` absorbs, `none` =
  `Write` returns an error and absorbs nothing) and `H : Bytes → Bytes` (`Sum(nil)` of the concatenation of what
  was absorbed);
* `error` is `Err`: `nil`, a package-level sentinel `var e = errors.New(…)` (identified by its variable name), the
  error of a refused `Write`, `fmt.Errorf(format, e)` wrapping.
Panics (nil map write, nil dereference, index out of range) are not modelled: the translator checks that every
dereference of an `Option` pointer is guarded by a nil test, `index` returns the zero value out of range.
-/
namespace GV.GoImp

abbrev Bytes := List UInt8
abbrev GoString := List UInt8

inductive Err
  | nil
  | sentinel (name : String)
  | hashWrite
  | wrapf (format : String) (e : Err)
deriving Repr, DecidableEq, Inhabited

/-! ### slices as values -/

def len {α} (s : List α) : Int := Int.ofNat s.length
def makeBytes (n : Int) : Bytes := List.replicate n.toNat 0
/-- the value of `dst` after `copy(dst, src)` -/
def copy {α} (dst src : List α) : List α := src.take (min dst.length src.length) ++ dst.drop (min dst.length src.length)
def index {α} [Inhabited α] (s : List α) (i : Int) : α := s.getD i.toNat default
def bytesOfString (s : GoString) : Bytes := s
/-- `*p` for a pointer known to be non-nil (the translator checks the guard) -/
def deref {α} [Inhabited α] (p : Option α) : α := p.getD default

/-- the value of the local buffer `x` after `copy(x[a:b], src)`: the window has length `b - a`, `min (b - a) (len src)` elements are
overwritten starting at `a` (a window that exceeds the buffer panics in Go: not modelled) -/
def copyAt {α} (x : List α) (a b : Int) (src : List α) : List α :=
  let n := min (b - a).toNat src.length
  x.take a.toNat ++ src.take n ++ x.drop (a.toNat + n)
/-- the value of the local buffer `x` after `x[j] = v` (out of range panics in Go: here no change) -/
def setAt {α} (x : List α) (j : Int) (v : α) : List α := x.set j.toNat v
/-- `uint8(x)` / `byte(x)` of an `int`: the low 8 bits -/
def byteOfInt (x : Int) : UInt8 := UInt8.ofNat (x % 256).toNat

/-! ### uint64 (values are `Nat` < 2^64; `+ - *` are emitted with an explicit `% 2^64`) -/

/-- `x << s` on uint64 (`s ≥ 64` gives 0, as in Go) -/
def shl64 (x s : Nat) : Nat := (x * 2^s) % 2^64
/-- `uint(x)` / `uint64(x)` of an `int` (two's complement wrap-around for negative x) -/
def uintOfInt (x : Int) : Nat := (x % 2^64).toNat

/-! ### int64 (values are `Int` in [-2^63, 2^63); `+ -` are emitted with an explicit `wrapS64`) -/

/-- two's complement wrap-around into [-2^63, 2^63) -/
def wrapS64 (x : Int) : Int := (x + 2^63) % 2^64 - 2^63
/-- `x ^ y` on int64: bitwise xor of the two's complement representations -/
def xorS64 (x y : Int) : Int := wrapS64 (Int.ofNat ((x % 2^64).toNat ^^^ (y % 2^64).toNat))
/-- a Go string (bytes) as a Lean `String`, for error messages built by concatenation -/
def strOf (s : GoString) : String := String.ofList (s.map (fun b => Char.ofNat b.toNat))

/-! ### *big.Int read as an exact integer -/

def bigIsUint64 (x : Int) : Bool := decide (0 ≤ x ∧ x < 2^64)
/-- `x.Uint64()`: the low 64 bits of |x| (Go: "undefined" when x is not a uint64; this is what the implementation returns) -/
def bigUint64 (x : Int) : Nat := x.natAbs % 2^64
def bigSign (x : Int) : Int := Int.sign x
/-- `x.BitLen()`: length of |x| in bits, 0 for 0 -/
def bigBitLen (x : Int) : Int := if x = 0 then 0 else (Nat.log2 x.natAbs + 1 : Nat)
/-- `x.Bit(i)`: bit i of x in two's complement (i < 0 panics in Go: not modelled) -/
def bigBit (x : Int) (i : Int) : Nat :=
  if 0 ≤ x then (x.toNat >>> i.toNat) % 2 else ((-x - 1).toNat >>> i.toNat + 1) % 2

/-- `x.Cmp(y)`: -1 / 0 / +1 -/
def bigCmp (x y : Int) : Int := if x < y then -1 else if x = y then 0 else 1
/-- `z.Mod(x, m)`: the Euclidean remainder, `0 ≤ result < |m|` (m = 0 panics in Go: not modelled) -/
def bigMod (x m : Int) : Int := x % m
/-- `z.SetBytes(b)`: b read as a big-endian unsigned integer -/
def bigSetBytes (b : Bytes) : Int := Int.ofNat (b.foldl (fun a x => a * 256 + x.toNat) 0)

/-- the VALUE of the window `x[a:b]` when it is only read (bounds outside `0 ≤ a ≤ b ≤ cap x` panic in Go: not modelled) -/
def sliceOf {α} (x : List α) (a b : Int) : List α := (x.drop a.toNat).take (b.toNat - a.toNat)
/-- `make([]T, n)`: n zero values of T (a negative n panics in Go: not modelled) -/
def makeSlice {α} [Inhabited α] (n : Int) : List α := List.replicate n.toNat default

/-! ### map[string]V -/

structure GoMap (V : Type) where
  entries : List (GoString × V) := []
deriving Repr, DecidableEq

namespace GoMap
variable {V : Type}

def lookupL [Inhabited V] : List (GoString × V) → GoString → V × Bool
  | [], _ => (default, false)
  | (k', v) :: m, k => if k' = k then (v, true) else lookupL m k

def setL : List (GoString × V) → GoString → V → List (GoString × V)
  | [], k, v => [(k, v)]
  | (k', v') :: m, k, v => if k' = k then (k', v) :: m else (k', v') :: setL m k v

def empty : GoMap V := { entries := [] }
/-- `v, ok := m[k]` -/
def lookup [Inhabited V] (m : GoMap V) (k : GoString) : V × Bool := lookupL m.entries k
/-- `m[k] = v` -/
def set (m : GoMap V) (k : GoString) (v : V) : GoMap V := { entries := setL m.entries k v }
end GoMap

/-! ### hash.Hash -/

structure Hash where
  written : List Bytes := []
deriving Repr, DecidableEq, Inhabited

namespace Hash
def Reset (_h : Hash) : Hash := { written := [] }
/-- `n, err := h.Write(p)` -/
def Write (W : Bytes → Option Bytes) (h : Hash) (p : Bytes) : Hash × (Int × Err) :=
  match W p with
  | none => (h, (0, Err.hashWrite))
  | some a => ({ written := h.written ++ [a] }, (len p, Err.nil))
/-- `h.Sum(b)` (does not change the state) -/
def Sum (H : Bytes → Bytes) (h : Hash) (b : Bytes) : Bytes := b ++ H h.written.flatten
end Hash

end GV.GoImp
