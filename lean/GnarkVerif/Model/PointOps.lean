import GnarkVerif.Model.Util
import GnarkVerif.Model.Alg
/-
C02 — executable specification side of the point-arithmetic correspondence (core-only).

Every op line carries the curve parameters (read from the Go API at generation time) and the operands as raw
coordinates. The model normalises every operand to an affine point of `GV.Alg.Curve` (textbook chord-and-tangent
law, `none` = point at infinity) resp. to an affine twisted-Edwards point, applies the textbook law and prints the
affine result. Nothing of the optimised Go formulas (Jacobian / XYZZ / projective / extended) is repeated here.

  C02 sw <group> <k> <p> <beta|-> <nu|-> <a> <b> <r> <op> <coordinates…>
      k = 1: coordinates in F_p; k = 2: F_p[u]/(u²-beta), written a0,a1; k = 4: F_p2[v]/(v²-nu), written a0,a1,b0,b1
  C02 te <curve> <q> <a> <d> <op> <coordinates…>
-/
namespace GV.PointOps
open GV GV.Alg

/-- modular inverse by the extended Euclidean algorithm, `0 ↦ 0`. For prime `q` it is the same function as
`powMod a (q-2) q` used by `Alg.fp`, only ~100× faster on 761-bit moduli. -/
def egcdInv (a q : Nat) : Nat :=
  let rec go (fuel : Nat) (r0 r1 : Nat) (s0 s1 : Int) : Int :=
    match fuel with
    | 0 => s0
    | f+1 => if r1 = 0 then s0 else go f r1 (r0 % r1) s1 (s0 - ((r0 / r1 : Nat) : Int) * s1)
  let a := a % q
  if a = 0 then 0 else ((go (2 * q.log2 + 8) q a 0 1) % (q : Int)).toNat

/-- `Alg.fp q` with the Euclidean inverse -/
def fpE (q : Nat) : FOps Nat := { fp q with inv := fun a => egcdInv a q }

/-- a coordinate field together with its parser (list of the k base-field components) -/
structure Tower (α : Type) where
  F : FOps α
  ofList : List Nat → α

def tower1 (p : Nat) : Tower Nat := ⟨fpE p, fun l => l.getD 0 0 % p⟩
def tower2 (p β : Nat) : Tower (Nat × Nat) := ⟨quad (fpE p) β, fun l => (l.getD 0 0 % p, l.getD 1 0 % p)⟩
def tower4 (p β : Nat) (ν : Nat × Nat) : Tower ((Nat × Nat) × (Nat × Nat)) :=
  ⟨quad (quad (fpE p) β) ν, fun l => ((l.getD 0 0 % p, l.getD 1 0 % p), (l.getD 2 0 % p, l.getD 3 0 % p))⟩

def splitComma (s : String) : List Nat := (s.splitOn ",").map parseHexD

section SW
variable {α : Type}

/-- affine encoding of the Go library: (0,0) is the point at infinity -/
def affPt (F : FOps α) (x y : α) : Pt α :=
  if F.beq x F.zero && F.beq y F.zero then none else some (x, y)

/-- Jacobian (X,Y,Z) ↦ (X/Z², Y/Z³), Z = 0 ↦ infinity -/
def jacPt (F : FOps α) (X Y Z : α) : Pt α :=
  if F.beq Z F.zero then none else
    let zi := F.inv Z
    let zi2 := F.mul zi zi
    some (F.mul X zi2, F.mul Y (F.mul zi2 zi))

/-- extended Jacobian (X,Y,ZZ,ZZZ) ↦ (X/ZZ, Y/ZZZ), ZZ = 0 ↦ infinity -/
def xyzzPt (F : FOps α) (X Y ZZ ZZZ : α) : Pt α :=
  if F.beq ZZ F.zero then none else some (F.mul X (F.inv ZZ), F.mul Y (F.inv ZZZ))

/-- weighted-homogeneous curve equation Y² = X³ + a·X·Z⁴ + b·Z⁶ -/
def jacOnCurve (E : Curve α) (X Y Z : α) : Bool :=
  let F := E.F
  let z2 := F.mul Z Z
  let z4 := F.mul z2 z2
  F.beq (F.mul Y Y) (F.add (F.add (F.mul X (F.mul X X)) (F.mul E.a (F.mul X z4))) (F.mul E.b (F.mul z4 z2)))

def isInf : Pt α → Bool
  | none => true
  | _ => false

def pts (E : Curve α) (ps : List (Pt α)) : String := " ".intercalate (ps.map E.showPt)

def jacList (F : FOps α) : List α → List (Pt α)
  | X :: Y :: Z :: rest => jacPt F X Y Z :: jacList F rest
  | _ => []

def runSW (E : Curve α) (r : Nat) (op : String) (c : List α) : String :=
  let F := E.F
  let aff := affPt F
  let jac := jacPt F
  let xz := xyzzPt F
  let sh := E.showPt
  match op, c with
  -- affine API
  | "aAdd", [x1, y1, x2, y2] => sh (E.add (aff x1 y1) (aff x2 y2))
  | "aSub", [x1, y1, x2, y2] => sh (E.add (aff x1 y1) (E.neg (aff x2 y2)))
  | "aDouble", [x, y] => sh (E.double (aff x y))
  | "aNeg", [x, y] => sh (E.neg (aff x y))
  | "aEqual", [x1, y1, x2, y2] => boolStr (F.beq x1 x2 && F.beq y1 y2)
  | "aIsInf", [x, y] => boolStr (isInf (aff x y))
  | "aOnCurve", [x, y] => boolStr (E.onCurve (aff x y))
  | "aInSub", [x, y] => boolStr (E.onCurve (aff x y) && isInf (E.smul r (aff x y)))
  | "aFromJac", [X, Y, Z] => sh (jac X Y Z)
  -- Jacobian API
  | "jAdd", [X1, Y1, Z1, X2, Y2, Z2] => sh (E.add (jac X1 Y1 Z1) (jac X2 Y2 Z2))
  | "jSub", [X1, Y1, Z1, X2, Y2, Z2] => sh (E.add (jac X1 Y1 Z1) (E.neg (jac X2 Y2 Z2)))
  | "jAddMixed", [X1, Y1, Z1, x, y] => sh (E.add (jac X1 Y1 Z1) (aff x y))
  | "jDoubleAssign", [X, Y, Z] => sh (E.double (jac X Y Z))
  | "jDouble", [X, Y, Z] => sh (E.double (jac X Y Z))
  | "jDoubleMixed", [x, y] => sh (E.double (aff x y))
  | "jNeg", [X, Y, Z] => sh (E.neg (jac X Y Z))
  | "jFromAffine", [x, y] => sh (aff x y)
  | "jEqual", [X1, Y1, Z1, X2, Y2, Z2] => boolStr (E.beq (jac X1 Y1 Z1) (jac X2 Y2 Z2))
  | "jOnCurve", [X, Y, Z] => boolStr (jacOnCurve E X Y Z)
  | "jInSub", [X, Y, Z] => boolStr (jacOnCurve E X Y Z && isInf (E.smul r (jac X Y Z)))
  | "batchJ2A", l => if l.isEmpty then "-" else pts E (jacList F l)
  -- extended Jacobian (unexported; reached through the verif-tagged shim)
  | "xAdd", [X1, Y1, A1, B1, X2, Y2, A2, B2] => sh (E.add (xz X1 Y1 A1 B1) (xz X2 Y2 A2 B2))
  | "xDouble", [X, Y, A, B] => sh (E.double (xz X Y A B))
  | "xAddMixed", [X, Y, A, B, x, y] => sh (E.add (xz X Y A B) (aff x y))
  | "xSubMixed", [X, Y, A, B, x, y] => sh (E.add (xz X Y A B) (E.neg (aff x y)))
  | "xDoubleMixed", [x, y] => sh (E.double (aff x y))
  | "xDoubleNegMixed", [x, y] => sh (E.double (E.neg (aff x y)))
  | "xToAffine", [X, Y, A, B] => sh (xz X Y A B)
  | "xToJac", [X, Y, A, B] => sh (xz X Y A B)
  | "xUnsafeToJac", [X, Y, A, B] => sh (xz X Y A B)
  | _, _ => "bad-op"

def runTower (T : Tower α) (a b : String) (r : Nat) (op : String) (args : List String) : String :=
  let E : Curve α := ⟨T.F, T.ofList (splitComma a), T.ofList (splitComma b)⟩
  let args := if op == "batchJ2A" then args.drop 1 else args
  runSW E r op (args.map (fun s => T.ofList (splitComma s)))

end SW

def handleSW : List String → String
  | _group :: k :: p :: beta :: nu :: a :: b :: r :: op :: args =>
    let p := parseHexD p
    let r := parseHexD r
    match k with
    | "1" => runTower (tower1 p) a b r op args
    | "2" => runTower (tower2 p (parseHexD beta)) a b r op args
    | "4" =>
      let n := splitComma nu
      runTower (tower4 p (parseHexD beta) (n.getD 0 0, n.getD 1 0)) a b r op args
    | _ => "bad-op"
  | _ => "bad-op"

/-! ### twisted Edwards -/

structure TE where
  q : Nat
  a : Nat
  d : Nat

namespace TE
variable (E : TE)

/-- unified affine addition law (the same formula as `Alg.TECurve.add`, over `fpE`) -/
def add (P Q : Nat × Nat) : Nat × Nat :=
  let F := fpE E.q
  let (x1, y1) := P; let (x2, y2) := Q
  let t := F.mul E.d (F.mul (F.mul x1 x2) (F.mul y1 y2))
  (F.mul (F.add (F.mul x1 y2) (F.mul y1 x2)) (F.inv (F.add F.one t)),
   F.mul (F.sub (F.mul y1 y2) (F.mul E.a (F.mul x1 x2))) (F.inv (F.sub F.one t)))

def neg (P : Nat × Nat) : Nat × Nat := ((fpE E.q).neg P.1, P.2 % E.q)

def onCurve (P : Nat × Nat) : Bool :=
  let F := fpE E.q
  let x2 := F.mul P.1 P.1; let y2 := F.mul P.2 P.2
  F.add (F.mul E.a x2) y2 == F.add F.one (F.mul E.d (F.mul x2 y2))

/-- projective / extended (X,Y,Z[,T]) ↦ (X/Z, Y/Z) -/
def norm (X Y Z : Nat) : Nat × Nat :=
  let F := fpE E.q
  let zi := F.inv Z
  (F.mul X zi, F.mul Y zi)

def sh (P : Nat × Nat) : String := toHex P.1 ++ ";" ++ toHex P.2

def isZero (P : Nat × Nat) : Bool := P.1 % E.q == 0 && P.2 % E.q == 1 % E.q

def run (op : String) (c : List Nat) : String :=
  let n := E.norm
  match op, c with
  | "aAdd", [x1, y1, x2, y2] => sh (E.add (x1, y1) (x2, y2))
  | "aDouble", [x, y] => sh (E.add (x, y) (x, y))
  | "aNeg", [x, y] => sh (E.neg (x, y))
  | "aEqual", [x1, y1, x2, y2] => boolStr (x1 == x2 && y1 == y2)
  | "aIsZero", [x, y] => boolStr (E.isZero (x, y))
  | "aOnCurve", [x, y] => boolStr (E.onCurve (x, y))
  | "aFromProj", [X, Y, Z] => sh (n X Y Z)
  | "aFromExt", [X, Y, Z, _] => sh (n X Y Z)
  | "pAdd", [X1, Y1, Z1, X2, Y2, Z2] => sh (E.add (n X1 Y1 Z1) (n X2 Y2 Z2))
  | "pMixedAdd", [X1, Y1, Z1, x, y] => sh (E.add (n X1 Y1 Z1) (x, y))
  | "pDouble", [X, Y, Z] => sh (E.add (n X Y Z) (n X Y Z))
  | "pNeg", [X, Y, Z] => sh (E.neg (n X Y Z))
  | "pFromAffine", [x, y] => sh (x, y)
  | "pEqual", [X1, Y1, Z1, X2, Y2, Z2] => boolStr (n X1 Y1 Z1 == n X2 Y2 Z2)
  | "pIsZero", [X, Y, Z] => boolStr (E.isZero (n X Y Z))
  | "eAdd", [X1, Y1, Z1, _, X2, Y2, Z2, _] => sh (E.add (n X1 Y1 Z1) (n X2 Y2 Z2))
  | "eAddFresh", [X1, Y1, Z1, _, X2, Y2, Z2, _] => sh (E.add (n X1 Y1 Z1) (n X2 Y2 Z2))
  | "eAddRaw", [X1, Y1, Z1, _, X2, Y2, Z2, _] => sh (E.add (n X1 Y1 Z1) (n X2 Y2 Z2))
  | "eMixedAdd", [X1, Y1, Z1, _, x, y] => sh (E.add (n X1 Y1 Z1) (x, y))
  | "eDouble", [X, Y, Z, _] => sh (E.add (n X Y Z) (n X Y Z))
  | "eMixedDouble", [X, Y, Z, _] => sh (E.add (n X Y Z) (n X Y Z))
  | "eNeg", [X, Y, Z, _] => sh (E.neg (n X Y Z))
  | "eFromAffine", [x, y] => sh (x, y)
  | "eEqual", [X1, Y1, Z1, _, X2, Y2, Z2, _] => boolStr (n X1 Y1 Z1 == n X2 Y2 Z2)
  | "eIsZero", [X, Y, Z, _] => boolStr (E.isZero (n X Y Z))
  | _, _ => "bad-op"

end TE

def handleTE : List String → String
  | _curve :: q :: a :: d :: op :: args =>
    let q := parseHexD q
    TE.run ⟨q, parseHexD a % q, parseHexD d % q⟩ op (args.map (fun s => parseHexD s % q))
  | _ => "bad-op"

def handle : List String → String
  | "sw" :: rest => handleSW rest
  | "te" :: rest => handleTE rest
  | _ => "bad-op"

end GV.PointOps
