import GnarkVerif.Model.Util
import GnarkVerif.Model.Sha256
import GnarkVerif.Model.Transcript
import GnarkVerif.Model.FieldOps
import GnarkVerif.Model.FFT
/-
Line-protocol driver: one op per input line, one canonical result per output line.
The Go harness runs the real implementation on the same lines; bin/check diffs the two streams.
-/
open GV

def handleLine (line : String) : String :=
  match words line with
  | "SHA256" :: [m] => bytesToHex (Sha256.hash (parseBytes m))
  | "C01" :: rest => FieldOps.handle rest
  | "C15" :: "sha256" :: rest => Transcript.handle Sha256.hash rest
  | "C10" :: rest => FFT.handle rest
  | _ => "bad-op"

partial def loop (h : IO.FS.Stream) (out : IO.FS.Stream) : IO Unit := do
  let line ← h.getLine
  if line.isEmpty then return ()
  out.putStrLn (handleLine line)
  loop h out

def main : IO Unit := do
  let stdin ← IO.getStdin
  let stdout ← IO.getStdout
  loop stdin stdout
  stdout.flush
