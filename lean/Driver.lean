import GnarkVerif.Model.Util
import GnarkVerif.Model.Sha256
import GnarkVerif.Model.Transcript
import GnarkVerif.Model.FieldOps
import GnarkVerif.Model.FFT
import GnarkVerif.Model.KZG
import GnarkVerif.Model.Alias
import GnarkVerif.Model.Merkle
import GnarkVerif.Model.Pairing
import GnarkVerif.Model.Conv
import GnarkVerif.Model.ForkJoin
import GnarkVerif.Model.ArgHash
import GnarkVerif.Model.ArgPairing
import GnarkVerif.Model.PointOps
import GnarkVerif.Model.PointCodecOps
import GnarkVerif.Model.SigOps
import GnarkVerif.Model.HashToField
import GnarkVerif.Model.ScalarMul
import GnarkVerif.Model.MiMC
import GnarkVerif.Model.Poseidon2
import GnarkVerif.Model.SIS
import GnarkVerif.Model.TowerExec
import GnarkVerif.Model.MSM
import GnarkVerif.Model.Poly
import GnarkVerif.Model.TowerOps
import GnarkVerif.Model.CpuPath
/-
Line-protocol driver: one op per input line, one canonical result per output line.
The Go harness runs the real implementation on the same lines; bin/check diffs the two streams.
-/
open GV

/-- C14 ops. `C14 fresh <op…>` (the Go side answers the op in a new process whose first call is the entry point of the op)
has the answer of `<op…>`: the model is a function of the op line, it has no process state. -/
def handleC14 : List String → String
  | "mimc" :: rest => MiMC.handle rest
  | "p2perm" :: rest => Poseidon2.handlePerm rest
  | "p2comp" :: rest => Poseidon2.handleComp rest
  | "md" :: rest => Poseidon2.handleMD rest
  | "vx" :: rest => Poseidon2.handleVx rest
  | "sis" :: rest => SIS.handleWith true rest
  | "sism" :: rest => SIS.handle rest
  | "sisd" :: rest => SIS.handleDirty rest
  | _ => "bad-op"

def handleLine (line : String) : String :=
  match words line with
  | "SHA256" :: [m] => bytesToHex (Sha256.hash (parseBytes m))
  | "C01" :: rest => FieldOps.handle rest
  | "C15" :: rest => Transcript.handle rest
  | "C10" :: rest => FFT.handle rest
  | "C11" :: rest => KZG.handle rest
  | "C19" :: rest => Alias.handle rest
  | "C16" :: rest => Merkle.handle rest
  | "C05" :: rest => Pairing.handle rest
  | "C08" :: rest => Conv.handle rest
  | "C18" :: rest => ForkJoin.handle rest
  | "C17" :: "pedersen" :: rest => ArgPairing.handle ("pedersen" :: rest)
  | "C17" :: "shplonk" :: rest => ArgPairing.handle ("shplonk" :: rest)
  | "C17" :: "fflonk" :: rest => ArgPairing.handle ("fflonk" :: rest)
  | "C17" :: "permutation" :: rest => ArgPairing.handle ("permutation" :: rest)
  | "C17" :: "plookup" :: rest => ArgPairing.handle ("plookup" :: rest)
  | "C17" :: "mpcsetup" :: rest => ArgPairing.handle ("mpcsetup" :: rest)
  | "C17" :: "vortex" :: rest => ArgHash.handle ("vortex" :: rest)
  | "C17" :: "fri" :: rest => ArgHash.handle ("fri" :: rest)
  | "C17" :: "friopen" :: rest => ArgHash.handle ("friopen" :: rest)
  | "C17" :: "friprove" :: rest => ArgHash.handle ("friprove" :: rest)
  | "C02" :: rest => PointOps.handle rest
  | "C07" :: rest => PointCodec.handle rest
  | "C12" :: rest => SigOps.handle rest
  | "C13" :: rest => HashToField.handle rest
  | "C03" :: rest => ScalarMul.handleTop rest
  | "C14" :: "fresh" :: rest => handleC14 rest
  | "C14" :: rest => handleC14 rest
  | "C06slp" :: rest => TowerExec.handle rest
  | "C04" :: rest => MSM.handle rest
  | "C20" :: rest => Poly.handle rest
  | "C06" :: rest => TowerOps.handle rest
  | "C09" :: rest => CpuPath.handle rest
  | _ => "bad-op"

partial def loop (h : IO.FS.Stream) (out : IO.FS.Stream) : IO Unit := do
  let line ← h.getLine
  if line.isEmpty then return ()
  out.putStrLn (handleLine line)
  loop h out

def main : IO Unit := do
  let stdin ← IO.getStdin
  let stdout ← IO.getStdout
  loop stdin stdout
  stdout.flush
