-- root of the library: importing a property module pulls in its model and helper lemmas
import GnarkVerif.Props.C15
import GnarkVerif.Props.C01
import GnarkVerif.Props.C09
import GnarkVerif.Props.C10
